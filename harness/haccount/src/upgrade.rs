//! C19: generated file-system accounts are upgraded to sqlite (after a dry run that must
//! leave the source untouched); sync status, decrypted folders and devices are compared
//! before/after, and the upgraded device must sync with its server without conflict.  The
//! same generated history is also executed directly on both backends and compared.
use crate::folder::{mk_secret, served, FView};
use crate::world::World;
use hcommon::{sha256, Cli, Report, Rng};
use serde_json::json;
use sos_account::{Account, LocalAccount};
use sos_backend::BackendTarget;
use sos_client_storage::{AccessOptions, NewFolderOptions};
use sos_core::{crypto::AccessKey, Paths, VaultFlags};
use sos_database_upgrader::{upgrade_accounts, UpgradeOptions};
use sos_sync::SyncStorage;
use std::collections::BTreeMap;

fn tree_digest(dir: &std::path::Path) -> BTreeMap<String, String> {
    fn walk(d: &std::path::Path, base: &std::path::Path, out: &mut BTreeMap<String, String>) {
        if let Ok(rd) = std::fs::read_dir(d) { for e in rd.flatten() { let p = e.path(); if p.is_dir() { out.insert(format!("{}/", p.strip_prefix(base).unwrap().display()), "dir".into()); walk(&p, base, out); } else if let Ok(b) = std::fs::read(&p) { out.insert(p.strip_prefix(base).unwrap().display().to_string(), hex::encode(&sha256(&b)[..8])); } } }
    }
    let mut m = BTreeMap::new(); walk(dir, dir, &mut m); m
}

/// run one generated history on an account; returns the multiset view (folder name -> sorted contents)
pub async fn history(a: &mut LocalAccount, seed: u64, with_attachment: bool) -> anyhow::Result<()> {
    let mut rng = Rng::new(seed ^ 0x19);
    let default = *a.default_folder().await.unwrap().id();
    let mut ids = vec![];
    for i in 0..rng.range(2, 5) { let (m, s) = { let l = format!("s{i}"); mk_secret(&mut rng, &l) }; ids.push(a.create_secret(m, s, AccessOptions { folder: Some(default), ..Default::default() }).await?.id); }
    let f1 = *a.create_folder(NewFolderOptions::new("work".into())).await?.folder.id();
    let f2 = *a.create_folder(NewFolderOptions::new("to-be-deleted".into())).await?.folder.id();
    { let (m, s) = mk_secret(&mut rng, "in-work"); a.create_secret(m, s, AccessOptions { folder: Some(f1), ..Default::default() }).await?; }
    { let (m, s) = mk_secret(&mut rng, "in-deleted"); a.create_secret(m, s, AccessOptions { folder: Some(f2), ..Default::default() }).await?; }
    let summaries = a.list_folders().await?;
    if let Some(s) = summaries.iter().find(|s| s.id() == &f1) { let _ = a.update_folder_flags(&f1, s.flags().clone() | VaultFlags::LOCAL).await; }
    a.set_folder_description(&f1, "work things").await?;
    a.rename_folder(&default, "main".into()).await?;
    { let (m, s) = mk_secret(&mut rng, "upd"); a.update_secret(&ids[0], m, Some(s), AccessOptions { folder: Some(default), ..Default::default() }).await?; }
    if ids.len() > 2 { a.delete_secret(&ids[1], AccessOptions { folder: Some(default), ..Default::default() }).await?; }
    a.delete_folder(&f2).await?;
    if rng.chance(1, 2) { let _ = a.move_secret(&ids[0], &default, &f1, Default::default()).await; }
    // an attachment (external file blob; its stored checksum is that of the randomised ciphertext, so it is left
    // out where two independent runs are compared)
    if with_attachment {
        let dir = std::path::Path::new("/verif/run/tmp").join(format!("c19src-{seed}-{}", std::process::id()));
        std::fs::create_dir_all(&dir)?;
        // one to three attachments, in two folders
        for k in 0..rng.range(1, 4) {
            let body: Vec<u8> = (0..rng.range(10, 5000)).map(|_| rng.below(256) as u8).collect();
            let path = dir.join(format!("attachment-{k}.bin")); std::fs::write(&path, &body)?;
            let secret: sos_vault::secret::Secret = path.clone().try_into()?;
            let meta = sos_vault::secret::SecretMeta::new(format!("attachment-{k}"), secret.kind());
            let folder = if k == 1 { f1 } else { default };
            let made = a.create_secret(meta, secret, AccessOptions { folder: Some(folder), ..Default::default() }).await?;
            // the first file secret also carries an attachment field: a second external file under the SAME secret id
            if k == 0 {
                let body2: Vec<u8> = (0..rng.range(10, 3000)).map(|_| rng.below(256) as u8).collect();
                let path2 = dir.join("attached-to-first.bin"); std::fs::write(&path2, &body2)?;
                let att: sos_vault::secret::Secret = path2.try_into()?;
                let att_meta = sos_vault::secret::SecretMeta::new("attached-field".into(), att.kind());
                let (mut row, _) = a.read_secret(&made.id, Some(&folder)).await?;
                row.secret_mut().add_field(sos_vault::secret::SecretRow::new(sos_core::SecretId::new_v4(), att_meta, att));
                a.update_secret(&made.id, row.meta().clone(), Some(row.secret().clone()), AccessOptions { folder: Some(folder), ..Default::default() }).await?;
            }
        }
        let _ = std::fs::remove_dir_all(&dir);
    }
    Ok(())
}

/// a server list (one or two servers; none when `servers` is false) and three account preferences next to the account
pub async fn add_extras(target: &BackendTarget, id: &sos_core::AccountId, seed: u64, servers: bool) -> anyhow::Result<()> {
    use sos_core::RemoteOrigins;
    use sos_preferences::{Preference, PreferenceManager};
    if servers {
        let mut so = sos_backend::ServerOrigins::new(target.clone(), id);
        so.add_server(sos_core::Origin::new("verif-server".into(), "https://sync.example.com:5053/".parse().unwrap())).await.map_err(|e| anyhow::anyhow!(e.to_string()))?;
        if seed % 3 == 0 { so.add_server(sos_core::Origin::new("backup".into(), "http://10.0.0.7:5053/".parse().unwrap())).await.map_err(|e| anyhow::anyhow!(e.to_string()))?; }
    }
    let mut pm = sos_backend::Preferences::new(target.clone());
    pm.new_account(id).await.map_err(|e| anyhow::anyhow!(e.to_string()))?;
    if let Some(p) = pm.account_preferences(id).await {
        let mut p = p.lock().await;
        p.insert("verif.string".into(), Preference::String(format!("value-{seed}"))).await.map_err(|e| anyhow::anyhow!(e.to_string()))?;
        p.insert("verif.flag".into(), Preference::Bool(seed % 2 == 0)).await.map_err(|e| anyhow::anyhow!(e.to_string()))?;
        p.insert("verif.list".into(), Preference::StringList(vec!["a".into(), "ü".into()])).await.map_err(|e| anyhow::anyhow!(e.to_string()))?;
    }
    Ok(())
}

/// the attachments an account serves: (blob name, digest of the decrypted content), sorted
pub async fn attachments(a: &LocalAccount) -> Result<Vec<(String, String)>, String> {
    use sos_sync::StorageEventLogs;
    let files = { let log = a.file_log().await.map_err(|e| e.to_string())?; let l = log.read().await; sos_reducers::FileReducer::new(&*l).reduce(None).await.map_err(|e| e.to_string())? };
    let mut blobs = vec![];
    for f in files.iter() {
        let d = match a.download_file(f.vault_id(), f.secret_id(), f.file_name()).await { Ok(b) => hex::encode(&sha256(&b)[..8]), Err(e) => format!("error:{e}") };
        blobs.push((format!("{}/{}/{}", f.vault_id(), f.secret_id(), f.file_name()), d));
    }
    blobs.sort();
    Ok(blobs)
}

/// (decrypted attachments, servers, account preferences) of an account on a backend target
pub async fn extras(a: &LocalAccount, target: &BackendTarget, id: &sos_core::AccountId) -> Result<(Vec<(String, String)>, Vec<String>, Vec<(String, String)>), String> {
    use sos_core::RemoteOrigins;
    use sos_preferences::PreferenceManager;
    use sos_sync::StorageEventLogs;
    let files = { let log = a.file_log().await.map_err(|e| e.to_string())?; let l = log.read().await; sos_reducers::FileReducer::new(&*l).reduce(None).await.map_err(|e| e.to_string())? };
    let mut blobs = vec![];
    for f in files.iter() {
        let d = match a.download_file(f.vault_id(), f.secret_id(), f.file_name()).await { Ok(b) => hex::encode(&sha256(&b)[..8]), Err(e) => format!("error:{e}") };
        blobs.push((f.file_name().to_string(), d));
    }
    blobs.sort();
    let so = sos_backend::ServerOrigins::new(target.clone(), id);
    let mut servers: Vec<String> = so.list_servers().await.map_err(|e| e.to_string())?.iter().map(|o| format!("{}|{}", o.name(), o.url())).collect();
    servers.sort();
    let mut pm = sos_backend::Preferences::new(target.clone());
    pm.load_account_preferences(&[sos_core::PublicIdentity::new(*id, "verif".into())]).await.map_err(|e| format!("load prefs: {e}"))?;
    let mut prefs = vec![];
    if let Some(p) = pm.account_preferences(id).await { let p = p.lock().await; for (k, v) in p.iter() { prefs.push((k.clone(), v.to_string())); } }
    prefs.sort();
    Ok((blobs, servers, prefs))
}

async fn snapshot(a: &mut LocalAccount) -> Result<(BTreeMap<String, (u64, String, Vec<String>)>, sos_sync::SyncStatus, usize), String> {
    let mut out = BTreeMap::new();
    for s in a.list_folders().await.map_err(|e| e.to_string())? {
        let v: FView = served(a, s.id()).await?;
        let mut c: Vec<String> = v.secrets.iter().map(|x| format!("{}:{}", x.0, x.1)).collect(); c.sort();
        out.insert(format!("{}:{}", s.id(), v.name), (v.flags, v.desc, c));
    }
    let st = a.sync_status().await.map_err(|e| e.to_string())?;
    let devices = a.trusted_devices().await.map(|d| d.len()).unwrap_or(0);
    Ok((out, st, devices))
}

pub async fn run_case(seed: u64, rep: &mut Report) -> anyhow::Result<()> {
    let w = World::new(1, "fs").await?;
    let key: AccessKey = w.password.clone().into();
    let mut script = vec![format!("world fs seed={seed}")];
    let synced = seed % 2 == 0;
    {
        let mut a = w.devices[0].lock().await;
        history(&mut a, seed, true).await?;
    }
    if synced { for _ in 0..3 { let r = w.sync(0).await; script.push(format!("sync -> {:?}", r)); } }
    // servers and account preferences stored next to the account
    let fs_target = { let a = w.devices[0].lock().await; a.backend_target().await };
    add_extras(&fs_target, &w.account_id, seed, true).await?;
    if false {
        use sos_core::RemoteOrigins;
        use sos_preferences::{Preference, PreferenceManager};
        let mut so = sos_backend::ServerOrigins::new(fs_target.clone(), &w.account_id);
        so.add_server(sos_core::Origin::new("verif-server".into(), "https://sync.example.com:5053/".parse().unwrap())).await.map_err(|e| anyhow::anyhow!(e.to_string()))?;
        if seed % 3 == 0 { so.add_server(sos_core::Origin::new("backup".into(), "http://10.0.0.7:5053/".parse().unwrap())).await.map_err(|e| anyhow::anyhow!(e.to_string()))?; }
        let mut pm = sos_backend::Preferences::new(fs_target.clone());
        pm.new_account(&w.account_id).await.map_err(|e| anyhow::anyhow!(e.to_string()))?;
        if let Some(p) = pm.account_preferences(&w.account_id).await {
            let mut p = p.lock().await;
            p.insert("verif.string".into(), Preference::String(format!("value-{seed}"))).await.map_err(|e| anyhow::anyhow!(e.to_string()))?;
            p.insert("verif.flag".into(), Preference::Bool(seed % 2 == 0)).await.map_err(|e| anyhow::anyhow!(e.to_string()))?;
            p.insert("verif.list".into(), Preference::StringList(vec!["a".into(), "ü".into()])).await.map_err(|e| anyhow::anyhow!(e.to_string()))?;
        }
    }
    // a second account in the same data directory (two thirds of the cases); in half of those it holds a copy of a
    // folder exported by the first account (same folder id and secret ids in two accounts)
    let dir0 = w.tmp.path().join("dev0");
    let pw2: secrecy::SecretString = "second account password verif".to_string().into();
    let key2: AccessKey = pw2.clone().into();
    let mut second: Option<(sos_core::AccountId, BTreeMap<String, (u64, String, Vec<String>)>, sos_sync::SyncStatus)> = None;
    let shared_folder = seed % 3 == 1;
    if seed % 3 != 0 {
        let t2 = BackendTarget::FileSystem(Paths::new_client(&dir0));
        let mut b = LocalAccount::new_account("second".to_string(), pw2.clone(), t2).await?;
        b.sign_in(&key2).await?;
        let _ = b.initialize_search_index().await;
        { let mut rng = Rng::new(seed ^ 0x2222); let (m, s) = mk_secret(&mut rng, "second-own"); b.create_secret(m, s, Default::default()).await?; }
        if shared_folder {
            let fkey: AccessKey = secrecy::SecretString::from(format!("shared-folder-key-{seed}")).into();
            let buffer = { let mut a = w.devices[0].lock().await; let f = a.list_folders().await?.into_iter().find(|s| s.name() == "work").map(|s| *s.id()); match f { Some(f) => a.export_folder_buffer(&f, fkey.clone(), false).await.ok(), None => None } };
            if let Some(buffer) = buffer { let r = b.import_folder_buffer(&buffer, fkey, false).await; script.push(format!("second account imports a copy of the first account's folder -> {}", r.is_ok())); }
        }
        let (snap, st, _) = snapshot(&mut b).await.map_err(|e| anyhow::anyhow!(e))?;
        second = Some((*b.account_id(), snap, st));
        b.sign_out().await?;
        script.push("second account in the same data directory".into());
    }
    rep.count(&format!("accounts-in-data-dir:{}{}", if second.is_some() { 2 } else { 1 }, if shared_folder { ":shared-folder-id" } else { "" }));
    let extras_before = { let a = w.devices[0].lock().await; extras(&a, &fs_target, &w.account_id).await };
    let (before, status_before, devices_before) = { let mut a = w.devices[0].lock().await; snapshot(&mut a).await.map_err(|e| anyhow::anyhow!(e))? };
    { let mut a = w.devices[0].lock().await; a.sign_out().await?; }
    let dir = w.tmp.path().join("dev0");
    let paths = Paths::new_client(&dir);
    // 1. dry run must leave the source untouched
    let t0 = tree_digest(&dir);
    let dry = upgrade_accounts(paths.documents_dir(), UpgradeOptions { paths: paths.clone(), dry_run: true, ..Default::default() }).await;
    let t1 = tree_digest(&dir);
    rep.case(&format!("dry:{seed}"), true);
    match dry { Ok(_) => {}, Err(e) => rep.spec_fail(if shared_folder { "c19-dry-run-fails-folder-id-in-two-accounts" } else { "c19-dry-run-fails" }, json!({"case_seed": seed, "script": script}), &e.to_string()) }
    if t0 != t1 {
        let changed: Vec<&String> = t0.keys().chain(t1.keys()).filter(|k| t0.get(*k) != t1.get(*k)).collect();
        rep.spec_fail("c19-dry-run-changed-source", json!({"case_seed": seed, "script": script, "changed": changed.iter().take(5).collect::<Vec<_>>()}), "a dry run of the upgrade changed files of the source account");
    }
    // 2. real upgrade (old files kept so that nothing else moves underneath the comparison)
    let up = upgrade_accounts(paths.documents_dir(), UpgradeOptions { paths: paths.clone(), dry_run: false, keep_stale_files: true, ..Default::default() }).await;
    if let Err(e) = up { rep.spec_fail(if shared_folder { "c19-upgrade-fails-folder-id-in-two-accounts" } else { "c19-upgrade-fails" }, json!({"case_seed": seed, "script": script}), &e.to_string()); return Ok(()); }
    let mut client = sos_database::open_file(paths.database_file()).await?;
    sos_database::migrations::migrate_client(&mut client).await?;
    let target = BackendTarget::Database(paths.clone(), client);
    if let Some((id2, snap2, st2)) = &second {
        match LocalAccount::new_unauthenticated(*id2, target.clone()).await {
            Ok(mut b) => match b.sign_in(&key2).await {
                Ok(_) => {
                    let _ = b.initialize_search_index().await;
                    match snapshot(&mut b).await {
                        Ok((snap, st, _)) => {
                            if &snap != snap2 { rep.spec_fail("c19-second-account-content-differs-after-upgrade", json!({"case_seed": seed, "script": script, "before": snap2.len(), "after": snap.len()}), "folders of the second account of the data directory differ after the upgrade"); }
                            if &st != st2 { rep.spec_fail("c19-second-account-sync-status-differs-after-upgrade", json!({"case_seed": seed, "script": script}), "event-log commit states of the second account differ after the upgrade"); }
                        }
                        Err(e) => rep.spec_fail("c19-second-account-unreadable-after-upgrade", json!({"case_seed": seed, "script": script}), &e),
                    }
                    let _ = b.sign_out().await;
                }
                Err(e) => rep.spec_fail("c19-second-account-does-not-sign-in-after-upgrade", json!({"case_seed": seed, "script": script}), &e.to_string()),
            },
            Err(e) => rep.spec_fail("c19-second-account-missing-after-upgrade", json!({"case_seed": seed, "script": script}), &e.to_string()),
        }
    }
    let mut up_acct = LocalAccount::new_unauthenticated(w.account_id, target).await?;
    if let Err(e) = up_acct.sign_in(&key).await { rep.spec_fail("c19-upgraded-account-does-not-sign-in", json!({"case_seed": seed, "script": script}), &e.to_string()); return Ok(()); }
    let (after, status_after, devices_after) = snapshot(&mut up_acct).await.map_err(|e| anyhow::anyhow!(e))?;
    rep.case(&format!("upgrade:{seed}:{}", if synced { "synced" } else { "unsynced" }), true);
    if status_after != status_before {
        let mut which = vec![];
        if status_after.identity != status_before.identity { which.push("identity"); }
        if status_after.account != status_before.account { which.push("account"); }
        if status_after.device != status_before.device { which.push("device"); }
        if status_after.files != status_before.files { which.push("files"); }
        if status_after.folders != status_before.folders { which.push("folders"); }
        rep.spec_fail(&format!("c19-sync-status-differs-after-upgrade:{}", which.join("+")), json!({"case_seed": seed, "script": script, "folders_before": status_before.folders.len(), "folders_after": status_after.folders.len()}), "commit roots / lengths of the event logs differ after the upgrade"); }
    if after != before {
        let what = if after.keys().collect::<Vec<_>>() != before.keys().collect::<Vec<_>>() { "folders" } else if after.values().map(|v| &v.2).ne(before.values().map(|v| &v.2)) { "secrets" } else { "attributes" };
        rep.spec_fail(&format!("c19-decrypted-content-differs-after-upgrade-{what}"), json!({"case_seed": seed, "script": script, "before": before.len(), "after": after.len()}), "folders served after the upgrade differ from those before");
    }
    if devices_after != devices_before { rep.spec_fail("c19-trusted-devices-differ-after-upgrade", json!({"case_seed": seed}), "trusted device set differs"); }
    // attachments, servers, preferences
    {
        let db_target = up_acct.backend_target().await;
        let extras_after = extras(&up_acct, &db_target, &w.account_id).await;
        match (&extras_before, &extras_after) {
            (Ok(b), Ok(a)) => {
                if b.0.is_empty() { rep.spec_fail("c19-harness-no-attachment", json!({"case_seed": seed}), "the generated account has no attachment"); }
                if a.0 != b.0 { rep.spec_fail("c19-attachments-differ-after-upgrade", json!({"case_seed": seed, "before": b.0, "after": a.0}), "attachment blobs (decrypted) differ after the upgrade"); }
                if a.1 != b.1 { rep.spec_fail("c19-servers-differ-after-upgrade", json!({"case_seed": seed, "before": b.1, "after": a.1}), "server list differs after the upgrade"); }
                if a.2 != b.2 { rep.spec_fail("c19-preferences-differ-after-upgrade", json!({"case_seed": seed, "before": b.2, "after": a.2}), "account preferences differ after the upgrade"); }
            }
            (Err(e), _) => rep.spec_fail("c19-harness-extras-error-before", json!({"case_seed": seed}), e),
            (_, Err(e)) => rep.spec_fail("c19-extras-unreadable-after-upgrade", json!({"case_seed": seed}), e),
        }
    }
    // 3. the upgraded device still syncs with its server without conflict
    let up_acct = std::sync::Arc::new(tokio::sync::Mutex::new(up_acct));
    if synced {
        use sos_protocol::{AsConflict, SyncOptions};
        use sos_remote_sync::AutoMerge;
        let (queue, _) = tokio::sync::broadcast::channel(8);
        let b = crate::bridge::BridgeG { account_id: w.account_id, account: up_acct.clone(), client: w.bridges[0].client.clone(), queue };
        let server_before = w.server_logs().await;
        match b.execute_sync(&SyncOptions::default()).await {
            Ok(_) => {}
            Err(e) => rep.spec_fail(if e.is_conflict() { "c19-upgraded-device-conflicts-with-server" } else { "c19-upgraded-device-sync-error" }, json!({"case_seed": seed, "script": script}), &e.to_string()),
        }
        let server_after = w.server_logs().await;
        if server_before != server_after { rep.spec_fail("c19-sync-after-upgrade-changed-server", json!({"case_seed": seed, "script": script}), "syncing the freshly upgraded (already synced) device changed the server's logs"); }
    }
    let mut up_acct = up_acct.lock().await;
    let _ = up_acct.sign_out().await;
    rep.count(if synced { "upgrade:synced" } else { "upgrade:unsynced" });
    // 4. the same history directly on both backends gives the same observable account
    let mut views = vec![];
    for backend in ["fs", "db"] {
        let wb = World::new(1, backend).await?;
        let mut a = wb.devices[0].lock().await;
        history(&mut a, seed, false).await?;
        let mut m: BTreeMap<String, (u64, String, Vec<String>)> = BTreeMap::new();
        for s in a.list_folders().await? {
            let v = served(&mut a, s.id()).await.map_err(|e| anyhow::anyhow!(e))?;
            let mut c: Vec<String> = v.secrets.iter().map(|x| x.1.clone()).collect(); c.sort();
            m.insert(v.name.clone(), (v.flags, v.desc, c));
        }
        let st = a.sync_status().await?;
        views.push((m, st.folders.len(), st.account.1.len(), st.identity.1.len()));
    }
    rep.case(&format!("both-backends:{seed}"), true);
    if views[0] != views[1] { rep.spec_fail("c19-same-history-differs-between-backends", json!({"case_seed": seed, "fs": format!("{:?}", views[0]), "db": format!("{:?}", views[1])}), "the same history gives different folders / log lengths on the file system and on sqlite"); }
    if seed % 5 == 0 { rep.sample(json!({"seed": seed, "synced": synced, "folders": before.len()})); }
    Ok(())
}

pub fn run(cli: &Cli) {
    let property = cli.extra.get("property").cloned().unwrap_or("C19".into());
    let mut rep = Report::new(&property, "upgrade", cli.seed, &cli.tier);
    let rt = tokio::runtime::Builder::new_multi_thread().worker_threads(4).enable_all().build().unwrap();
    let n: u64 = cli.extra.get("cases").and_then(|s| s.parse().ok()).unwrap_or(if cli.tier == "thorough" { 60 } else { 6 });
    for k in 0..n {
        let case_seed = cli.seed.wrapping_mul(1_000_003).wrapping_add(k);
        if let Err(e) = rt.block_on(run_case(case_seed, &mut rep)) {
            rep.notes.push(format!("case {case_seed} aborted: {e}"));
            rep.spec_fail("c19-harness-aborted", json!({"case_seed": case_seed}), &e.to_string());
        }
    }
    rep.rule = format!("{n} generated file-system accounts (several folders incl. flags, description, a deleted folder, updates, deletes, a move; half of them synced to a server first): dry run (directory tree digest before/after), real upgrade, \\
        then sync status, decrypted folders, trusted devices before vs after, and server status vs upgraded status; plus the same history executed directly on both backends");
    rep.write(&cli.out);
}
