//! C16: real `account_integrity` on accounts produced by generated histories (fs and
//! sqlite); clean run, then one mutation at a time of content / checksum bytes of vault
//! rows and event records, and removals.
use crate::world::World;
use hcommon::{Cli, Report, Rng};
use serde_json::json;
use sos_account::Account;
use sos_backend::BackendTarget;
use sos_core::{constants::{FOLDER_EVENT_LOG_IDENTITY, VAULT_IDENTITY}, VaultId};
use sos_filesystem::formats::{EventLogRecord, FileItem, FormatStream, FormatStreamIterator, VaultRecord};
use sos_integrity::{account_integrity, FolderIntegrityEvent};
use sos_vault::{Header, Summary};
use std::collections::BTreeMap;

/// failures per folder
async fn run_report(target: &BackendTarget, account_id: &sos_core::AccountId, folders: Vec<Summary>) -> Result<BTreeMap<VaultId, usize>, String> {
    let (mut rx, _cancel) = account_integrity(target, account_id, folders, 2).await.map_err(|e| e.to_string())?;
    let mut out: BTreeMap<VaultId, usize> = BTreeMap::new();
    let res = tokio::time::timeout(std::time::Duration::from_secs(30), async {
        while let Some(ev) = rx.recv().await {
            match ev {
                FolderIntegrityEvent::Failure(id, _) => { *out.entry(id).or_insert(0) += 1; }
                FolderIntegrityEvent::Complete => break,
                _ => {}
            }
        }
    }).await;
    if res.is_err() { return Err("report did not complete within 30 s".into()); }
    Ok(out)
}

/// (value range, checksum offset) of every row of a vault / event log file
async fn fs_rows(path: &std::path::Path, is_vault: bool) -> anyhow::Result<Vec<(std::ops::Range<u64>, u64)>> {
    let mut out = vec![];
    let stream = sos_vfs::File::open(path).await?;
    if is_vault {
        let off = Header::read_content_offset(path).await?;
        let mut it = FormatStream::<VaultRecord, sos_vfs::File>::new_file(stream, &VAULT_IDENTITY, true, Some(off), false).await?;
        while let Some(r) = it.next().await? { let v = r.value().clone(); out.push((v.clone(), v.start - 4 - 32)); }
    } else {
        let mut it = FormatStream::<EventLogRecord, sos_vfs::File>::new_file(stream, &FOLDER_EVENT_LOG_IDENTITY, true, Some(FOLDER_EVENT_LOG_IDENTITY.len() as u64), false).await?;
        while let Some(r) = it.next().await? { let v = r.value().clone(); out.push((v.clone(), v.start - 4 - 32)); }
    }
    Ok(out)
}

fn model_rows(rows: &[(Vec<u8>, Vec<u8>)]) -> String {
    // (content, stored checksum): C when the checksum is the digest of the content
    if rows.is_empty() { return "-".into(); }
    rows.iter().map(|(c, k)| {
        let ch = if c.is_empty() { "-".to_string() } else { hex::encode(c) };
        if hcommon::sha256(c).as_slice() == k.as_slice() { format!("{ch}/C") } else { format!("{ch}/X:{}", hex::encode(k)) }
    }).collect::<Vec<_>>().join(",")
}

async fn fs_model_line(vault: &std::path::Path, log: &std::path::Path) -> anyhow::Result<String> {
    let vp = vault.exists(); let lp = log.exists();
    let mut vr = vec![]; let mut er = vec![];
    if vp && lp {
        let vb = std::fs::read(vault)?; let lb = std::fs::read(log)?;
        for (v, c) in fs_rows(vault, true).await? { vr.push((vb[v.start as usize..v.end as usize].to_vec(), vb[c as usize..c as usize + 32].to_vec())); }
        for (v, c) in fs_rows(log, false).await? { er.push((lb[v.start as usize..v.end as usize].to_vec(), lb[c as usize..c as usize + 32].to_vec())); }
    }
    Ok(format!("integrity report vault={} log={} vrows={} erows={}", vp as u8, lp as u8, model_rows(&vr), model_rows(&er)))
}

/// The same model line from the sqlite rows of one folder: the vault is present when the folder row exists,
/// the log when the folder has at least one event row; a vault row's content is meta || secret.
async fn db_model_line(client: &sos_database::async_sqlite::Client, fid: String) -> Option<String> {
    type Rows = Vec<(Vec<u8>, Vec<u8>)>;
    let r: Result<(bool, Rows, Rows), _> = client.conn(move |conn| {
        let row: Option<i64> = conn.query_row("SELECT folder_id FROM folders WHERE identifier = ?1", [&fid], |r| r.get(0)).ok();
        let Some(row) = row else { return Ok((false, vec![], vec![])) };
        let vr: Rows = { let mut st = conn.prepare("SELECT meta, secret, commit_hash FROM folder_secrets WHERE folder_id = ?1 ORDER BY secret_id ASC")?;
            let it = st.query_map([row], |r| { let mut c: Vec<u8> = r.get(0)?; let s: Vec<u8> = r.get(1)?; c.extend_from_slice(&s); Ok((c, r.get::<_, Vec<u8>>(2)?)) })?; it.filter_map(|x| x.ok()).collect() };
        let er: Rows = { let mut st = conn.prepare("SELECT event, commit_hash FROM folder_events WHERE folder_id = ?1 ORDER BY event_id ASC")?;
            let it = st.query_map([row], |r| Ok((r.get(0)?, r.get(1)?)))?; it.filter_map(|x| x.ok()).collect() };
        Ok((true, vr, er))
    }).await;
    let (vp, vr, er) = r.ok()?;
    let lp = vp && !er.is_empty();
    let (vr, er) = if vp && lp { (vr, er) } else { (vec![], vec![]) };
    Some(format!("integrity report vault={} log={} vrows={} erows={}", vp as u8, lp as u8, model_rows(&vr), model_rows(&er)))
}

pub async fn run_case(backend: &str, seed: u64, rep: &mut Report, ops: &mut Vec<String>, imp: &mut Vec<String>, thorough: bool) -> anyhow::Result<()> {
    let mut rng = Rng::new(seed ^ 0x16);
    let w = World::new(1, backend).await?;
    let mut a = w.devices[0].lock().await;
    let default = *a.default_folder().await.unwrap().id();
    // history: secrets, an update, a delete, an extra folder, a rename
    let mut ids = vec![];
    for i in 0..rng.range(2, 5) {
        let (m, s) = { let l = format!("s{i}"); crate::folder::mk_secret(&mut rng, &l) };
        ids.push(a.create_secret(m, s, Default::default()).await?.id);
    }
    if rng.chance(1, 2) { let (m, s) = crate::folder::mk_secret(&mut rng, "upd"); a.update_secret(&ids[0], m, Some(s), Default::default()).await?; }
    if rng.chance(1, 2) && ids.len() > 2 { a.delete_secret(&ids[1], Default::default()).await?; }
    let extra = *a.create_folder(sos_client_storage::NewFolderOptions::new("extra".into())).await?.folder.id();
    { let (m, s) = crate::folder::mk_secret(&mut rng, "in-extra"); a.create_secret(m, s, sos_client_storage::AccessOptions { folder: Some(extra), ..Default::default() }).await?; }
    if rng.chance(1, 2) { a.rename_folder(&default, "renamed".into()).await?; }
    let target = a.backend_target().await;
    let account_id = *a.account_id();
    let folders = a.list_folders().await?;
    let script = vec![format!("world backend={backend} seed={seed}")];
    // 1. clean run
    let clean = run_report(&target, &account_id, folders.clone()).await.map_err(|e| anyhow::anyhow!(e))?;
    rep.case(&format!("{backend}:{seed}:clean"), true);
    if !clean.is_empty() {
        rep.spec_fail(&format!("c16-intact-account-reports-failure-{backend}"), json!({"case_seed": seed, "backend": backend, "script": script, "failures": clean.values().sum::<usize>()}),
            "the integrity report of an untampered account contains a failure");
    }
    rep.count(&format!("{backend}:clean:{}", if clean.is_empty() { "ok" } else { "failures" }));
    // 2. mutations, one at a time
    match &target {
        BackendTarget::FileSystem(paths) => {
            for fid in [default, extra] {
                let vault = paths.with_account_id(&account_id).vault_path(&fid);
                let log = paths.with_account_id(&account_id).event_log_path(&fid);
                ops.push(fs_model_line(&vault, &log).await?);
                imp.push(format!("failures={} missing=0", clean.get(&fid).copied().unwrap_or(0)));
                for (file, is_vault) in [(&vault, true), (&log, false)] {
                    let rows = fs_rows(file, is_vault).await?;
                    let orig = std::fs::read(file)?;
                    let n_mut = if thorough { 24 } else { 6 };
                    for _ in 0..n_mut {
                        if rows.is_empty() { break; }
                        let (val, coff) = rows[rng.below(rows.len() as u64) as usize].clone();
                        let (pos, what) = if rng.chance(1, 2) && val.end > val.start { (rng.range(val.start, val.end - 1), "content") } else { (coff + rng.below(32), "checksum") };
                        let mut bytes = orig.clone();
                        bytes[pos as usize] ^= 1 << rng.below(8);
                        std::fs::write(file, &bytes)?;
                        let r = run_report(&target, &account_id, folders.clone()).await;
                        let line = fs_model_line(&vault, &log).await;
                        std::fs::write(file, &orig)?;
                        let kind = format!("{}-{}", if is_vault { "vault-row" } else { "event-record" }, what);
                        rep.case(&format!("{backend}:{seed}:{fid}:{kind}:{pos}"), true);
                        match r {
                            Ok(f) => {
                                let n = f.get(&fid).copied().unwrap_or(0);
                                rep.count(&format!("{backend}:{kind}:{}", if n > 0 { "flagged" } else { "missed" }));
                                if n == 0 { rep.spec_fail(&format!("c16-corruption-not-reported-{kind}-{backend}"), json!({"case_seed": seed, "backend": backend, "file": file.display().to_string(), "offset": pos}), "a flipped bit in a content / checksum region is not reported"); }
                                if let Ok(l) = line { ops.push(l); imp.push(format!("failures={} missing=0", n)); }
                            }
                            Err(e) => rep.spec_fail(&format!("c16-report-error-{backend}"), json!({"case_seed": seed, "file": file.display().to_string(), "offset": pos}), &e),
                        }
                    }
                    // removal
                    let moved = file.with_extension("removed");
                    std::fs::rename(file, &moved)?;
                    let r = run_report(&target, &account_id, folders.clone()).await;
                    let line = fs_model_line(&vault, &log).await;
                    std::fs::rename(&moved, file)?;
                    let kind = if is_vault { "vault-removed" } else { "log-removed" };
                    rep.case(&format!("{backend}:{seed}:{fid}:{kind}"), true);
                    if let Ok(f) = r {
                        let n = f.get(&fid).copied().unwrap_or(0);
                        rep.count(&format!("{backend}:{kind}:{}", if n > 0 { "flagged" } else { "missed" }));
                        if n == 0 { rep.spec_fail(&format!("c16-removal-not-reported-{kind}-{backend}"), json!({"case_seed": seed, "backend": backend}), "a removed vault / log is not reported"); }
                        if let Ok(l) = line { ops.push(l); imp.push(format!("failures={} missing={}", n, n)); }
                    }
                }
            }
        }
        BackendTarget::Database(_, client) => {
            for s in folders.iter() {
                if let Some(l) = db_model_line(client, s.id().to_string()).await { if l.len() < 60000 { ops.push(l); imp.push(format!("failures={} missing=0", clean.get(s.id()).copied().unwrap_or(0))); } }
            }
            // flip one bit of one cell: folder_secrets.{meta,secret,commit_hash}, folder_events.{event,commit_hash}
            let cells = [("folder_secrets", "secret_id", "meta", "vault-row-content"), ("folder_secrets", "secret_id", "secret", "vault-row-content"),
                ("folder_secrets", "secret_id", "commit_hash", "vault-row-checksum"), ("folder_events", "event_id", "event", "event-record-content"),
                ("folder_events", "event_id", "commit_hash", "event-record-checksum")];
            let n_mut = if thorough { 40 } else { 10 };
            for _ in 0..n_mut {
                let (table, idc, col, kind) = *rng.pick(&cells);
                let pick = rng.next();
                let bit = rng.below(8) as u8;
                let off_seed = rng.next();
                let q_sel = format!("SELECT {idc}, {col}, folder_id FROM {table}");
                let q_upd = format!("UPDATE {table} SET {col} = ?1 WHERE {idc} = ?2");
                let q_fid = "SELECT identifier FROM folders WHERE folder_id = ?1".to_string();
                let (q_sel2, q_upd2, q_fid2) = (q_sel.clone(), q_upd.clone(), q_fid.clone());
                let r: Result<Option<(i64, Vec<u8>, String)>, _> = client.conn_mut(move |conn| {
                    let rows: Vec<(i64, Vec<u8>, i64)> = { let mut st = conn.prepare(&q_sel2)?; let it = st.query_map([], |r| Ok((r.get(0)?, r.get(1)?, r.get(2)?)))?; it.filter_map(|x| x.ok()).collect() };
                    if rows.is_empty() { return Ok(None); }
                    let (id, blob, folder) = rows[(pick % rows.len() as u64) as usize].clone();
                    if blob.is_empty() { return Ok(None); }
                    let mut m = blob.clone();
                    let pos = (off_seed % m.len() as u64) as usize;
                    m[pos] ^= 1 << bit;
                    conn.execute(&q_upd2, (m, id))?;
                    let fid: String = conn.query_row(&q_fid2, [folder], |r| r.get(0))?;
                    Ok(Some((id, blob, fid)))
                }).await;
                let Ok(Some((row_id, orig, fid_s))) = r else { continue };
                let fid: VaultId = fid_s.parse()?;
                let rr = run_report(&target, &account_id, folders.clone()).await;
                let line = db_model_line(client, fid_s.clone()).await;
                let q_upd3 = q_upd.clone();
                let _ = client.conn_mut(move |conn| { conn.execute(&q_upd3, (orig, row_id))?; Ok(()) }).await;
                rep.case(&format!("{backend}:{seed}:{table}:{col}:{row_id}:{off_seed}:{bit}"), true);
                // only folders that the report covers (listed folders)
                if !folders.iter().any(|s| s.id() == &fid) { continue; }
                match rr {
                    Ok(f) => {
                        let n = f.get(&fid).copied().unwrap_or(0);
                        rep.count(&format!("{backend}:{kind}:{}", if n > 0 { "flagged" } else { "missed" }));
                        if n == 0 { rep.spec_fail(&format!("c16-corruption-not-reported-{kind}-{backend}"), json!({"case_seed": seed, "backend": backend, "table": table, "column": col, "row": row_id}), "a flipped bit in a content / checksum cell is not reported"); }
                        if let Some(l) = line { if l.len() < 60000 { ops.push(l); imp.push(format!("failures={} missing=0", n)); } }
                    }
                    Err(e) => rep.spec_fail(&format!("c16-report-error-{backend}"), json!({"case_seed": seed, "table": table, "column": col}), &e),
                }
            }
            // removal: a folder's log (all its event rows), then put back; at the very end a folder's row (its vault)
            for s in folders.iter() {
                let fid = *s.id();
                let fid_s = fid.to_string();
                let saved: Result<Vec<(i64, String, Vec<u8>, Vec<u8>)>, _> = client.conn_mut(move |conn| {
                    let row: i64 = conn.query_row("SELECT folder_id FROM folders WHERE identifier = ?1", [&fid_s], |r| r.get(0))?;
                    let rows: Vec<(i64, String, Vec<u8>, Vec<u8>)> = { let mut st = conn.prepare("SELECT folder_id, created_at, commit_hash, event FROM folder_events WHERE folder_id = ?1 ORDER BY event_id ASC")?;
                        let it = st.query_map([row], |r| Ok((r.get(0)?, r.get(1)?, r.get(2)?, r.get(3)?)))?; it.filter_map(|x| x.ok()).collect() };
                    conn.execute("DELETE FROM folder_events WHERE folder_id = ?1", [row])?;
                    Ok(rows)
                }).await;
                let Ok(saved) = saved else { rep.notes.push("db log removal: could not read the folder's events".into()); continue };
                let rr = run_report(&target, &account_id, folders.clone()).await;
                let line = db_model_line(client, fid.to_string()).await;
                let n_saved = saved.len();
                let _ = client.conn_mut(move |conn| { for (f, t, c, e) in saved { conn.execute("INSERT INTO folder_events (folder_id, created_at, commit_hash, event) VALUES (?1, ?2, ?3, ?4)", (f, t, c, e))?; } Ok(()) }).await;
                rep.case(&format!("{backend}:{seed}:{fid}:log-removed"), true);
                if let Ok(f) = rr {
                    let n = f.get(&fid).copied().unwrap_or(0);
                    rep.count(&format!("{backend}:log-removed:{}", if n > 0 { "flagged" } else { "missed" }));
                    if let Some(l) = line { ops.push(l); imp.push(format!("failures={} missing={}", n, n)); }
                    if n == 0 { rep.spec_fail(&format!("c16-removal-not-reported-log-removed-{backend}"), json!({"case_seed": seed, "backend": backend, "folder": fid.to_string(), "events": n_saved}), "a folder whose event rows were all removed is not reported"); }
                }
                // the restored log must be clean again (the harness put back what it took)
                if let Ok(f) = run_report(&target, &account_id, folders.clone()).await {
                    if f.get(&fid).copied().unwrap_or(0) > 0 { rep.notes.push(format!("db log removal: restored log of {fid} reported (harness)")); }
                }
            }
            if let Some(s) = folders.last() {
                let fid = *s.id();
                let fid_s = fid.to_string();
                let r = client.conn_mut(move |conn| { conn.execute("DELETE FROM folders WHERE identifier = ?1", [&fid_s])?; Ok(()) }).await;
                if r.is_ok() {
                    rep.case(&format!("{backend}:{seed}:{fid}:vault-removed"), true);
                    if let Ok(f) = run_report(&target, &account_id, folders.clone()).await {
                        let n = f.get(&fid).copied().unwrap_or(0);
                        rep.count(&format!("{backend}:vault-removed:{}", if n > 0 { "flagged" } else { "missed" }));
                        if let Some(l) = db_model_line(client, fid.to_string()).await { ops.push(l); imp.push(format!("failures={} missing={}", n, n)); }
                        if n == 0 { rep.spec_fail(&format!("c16-removal-not-reported-vault-removed-{backend}"), json!({"case_seed": seed, "backend": backend, "folder": fid.to_string()}), "a folder whose row was removed is not reported"); }
                    }
                }
            }
        }
    }
    if seed % 10 == 0 { rep.sample(json!({"backend": backend, "seed": seed, "folders": folders.len()})); }
    Ok(())
}

/// C16 for external file blobs: real `file_integrity` over the files named by the file event
/// log; clean, then ONE blob changed (bit flip / truncation / extension / emptied / removed):
/// exactly that file must be reported.
pub async fn file_case(backend: &str, seed: u64, rep: &mut Report, thorough: bool) -> anyhow::Result<()> {
    use sos_client_storage::AccessOptions;
    use sos_integrity::{file_integrity, FileIntegrityEvent, IntegrityFailure};
    use sos_reducers::FileReducer;
    use sos_sync::StorageEventLogs;
    use sos_vault::secret::{Secret, SecretMeta};
    let mut rng = Rng::new(seed ^ 0x16F);
    let w = World::new(1, backend).await?;
    let srcdir = std::path::Path::new("/verif/run/tmp").join(format!("c16src-{seed}-{backend}"));
    std::fs::create_dir_all(&srcdir)?;
    let (target, files) = {
        let mut a = w.devices[0].lock().await;
        let default = *a.default_folder().await.unwrap().id();
        let n_files = rng.range(2, 4);
        for i in 0..n_files {
            let body: Vec<u8> = (0..rng.range(1, 70_000)).map(|_| rng.below(256) as u8).collect();
            let path = srcdir.join(format!("f{i}.bin")); std::fs::write(&path, &body)?;
            let secret: Secret = path.clone().try_into()?;
            a.create_secret(SecretMeta::new(format!("file{i}"), secret.kind()), secret, AccessOptions { folder: Some(default), ..Default::default() }).await?;
        }
        let files = { let log = a.file_log().await?; let l = log.read().await; FileReducer::new(&*l).reduce(None).await? };
        (a.backend_target().await, files)
    };
    let _ = std::fs::remove_dir_all(&srcdir);
    let paths = target.paths();
    let run = |files: indexmap::IndexSet<sos_core::ExternalFile>| { let target = target.clone(); async move {
        let (mut rx, _cancel) = file_integrity(&target, files, 2).await.map_err(|e| e.to_string())?;
        let mut out: Vec<(String, String)> = vec![];
        let res = tokio::time::timeout(std::time::Duration::from_secs(30), async {
            while let Some(ev) = rx.recv().await {
                match ev {
                    FileIntegrityEvent::Failure(f, why) => out.push((f.to_string(), match why { IntegrityFailure::MissingFile(_) => "missing".into(), IntegrityFailure::CorruptedFile { .. } => "corrupted".into(), other => format!("other:{other:?}") })),
                    FileIntegrityEvent::Complete => break,
                    _ => {}
                }
            }
        }).await;
        if res.is_err() { return Err("file report did not complete within 30 s".to_string()); }
        Ok::<_, String>(out)
    } };
    let ctx = |extra: serde_json::Value| json!({"case_seed": seed, "backend": backend, "detail": extra});
    // clean
    let first: Result<Vec<(String, String)>, String> = run(files.clone()).await;
    match first {
        Ok(f) if f.is_empty() => {}
        Ok(f) => rep.spec_fail(&format!("c16-intact-files-report-failure-{backend}"), ctx(json!({"failures": f})), "intact blobs are reported"),
        Err(e) => rep.spec_fail(&format!("c16-file-report-error-{backend}"), ctx(json!({})), &e),
    }
    rep.case(&format!("{backend}:files:clean:{}", files.len()), true);
    // one change at a time
    let list: Vec<sos_core::ExternalFile> = files.iter().cloned().collect();
    let kinds = ["bitflip", "truncate", "extend", "empty", "remove", "bitflip-last-byte", "truncate-one"];
    let rounds = if thorough { 12 } else { 4 };
    for _ in 0..rounds {
        let victim = *rng.pick(&list);
        let kind = *rng.pick(&kinds);
        let path = paths.into_file_path(&victim);
        let orig = std::fs::read(&path)?;
        let mut changed = orig.clone();
        let mut removed = false;
        match kind {
            "bitflip" => { let i = rng.below(changed.len() as u64) as usize; changed[i] ^= 1 << rng.below(8); }
            "bitflip-last-byte" => { let i = changed.len() - 1; changed[i] ^= 0x80; }
            "truncate" => { let k = rng.below(changed.len() as u64) as usize; changed.truncate(k.max(1)); if changed.len() == orig.len() { changed.pop(); } }
            "truncate-one" => { changed.pop(); }
            "extend" => changed.push(0),
            "empty" => changed.clear(),
            _ => removed = true,
        }
        if removed { std::fs::remove_file(&path)?; } else { std::fs::write(&path, &changed)?; }
        let got: Result<Vec<(String, String)>, String> = run(files.clone()).await;
        std::fs::write(&path, &orig)?;
        rep.case(&format!("{backend}:files:{kind}:{}", orig.len() / 4096), true);
        rep.count(&format!("file-tamper:{kind}"));
        match got {
            Ok(f) => {
                let names: Vec<&String> = f.iter().map(|x| &x.0).collect();
                if !names.contains(&&victim.to_string()) { rep.spec_fail(&format!("c16-tampered-blob-not-reported:{kind}:{backend}"), ctx(json!({"file": victim.to_string(), "size": orig.len(), "failures": f})), "a changed / removed blob is not reported"); }
                if f.iter().any(|x| x.0 != victim.to_string()) { rep.spec_fail(&format!("c16-untouched-blob-reported:{kind}:{backend}"), ctx(json!({"file": victim.to_string(), "failures": f})), "a blob that was not touched is reported"); }
                let want = if removed { "missing" } else { "corrupted" };
                if let Some(x) = f.iter().find(|x| x.0 == victim.to_string()) { if x.1 != want { rep.spec_fail(&format!("c16-blob-reported-as-{}-expected-{want}:{backend}", x.1.split(':').next().unwrap()), ctx(json!({"file": victim.to_string(), "kind": kind})), "wrong failure kind"); } }
            }
            Err(e) => rep.spec_fail(&format!("c16-file-report-error-{backend}"), ctx(json!({"kind": kind})), &e),
        }
    }
    Ok(())
}

pub fn run(cli: &Cli) {
    let property = cli.extra.get("property").cloned().unwrap_or("C16".into());
    let mut rep = Report::new(&property, "integrity", cli.seed, &cli.tier);
    let rt = tokio::runtime::Builder::new_multi_thread().worker_threads(4).enable_all().build().unwrap();
    let thorough = cli.tier == "thorough";
    let n: u64 = cli.extra.get("cases").and_then(|s| s.parse().ok()).unwrap_or(if thorough { 40 } else { 5 });
    let mut ops = vec![]; let mut imp = vec![];
    for backend in ["fs", "db"] {
        for k in 0..n {
            let case_seed = cli.seed.wrapping_mul(1_000_003).wrapping_add(k);
            if let Err(e) = rt.block_on(run_case(backend, case_seed, &mut rep, &mut ops, &mut imp, thorough)) {
                rep.notes.push(format!("case {backend}/{case_seed} aborted: {e}"));
            }
        }
    }
    for backend in ["fs", "db"] {
        for k in 0..(if thorough { 8 } else { 2 }) {
            let case_seed = cli.seed.wrapping_mul(1_000_003).wrapping_add(500 + k);
            if let Err(e) = rt.block_on(file_case(backend, case_seed, &mut rep, thorough)) { rep.spec_fail("c16-harness-aborted", json!({"case_seed": case_seed, "backend": backend, "part": "files"}), &e.to_string()); }
        }
    }
    rep.diff_streams("corr:integrity", &ops, &imp);
    rep.rule = format!("{n} accounts per backend from generated histories (secrets of several kinds, update, delete, second folder, rename); a clean report, then one single-bit flip at a time in the content or checksum region of \\
        vault rows and event records (file system: byte offsets from the real row iterator; sqlite: one cell of folder_secrets / folder_events), and removal of the vault and of the log (file system); \\
        file-system cases are also replayed on the Lean report function (rows read back from the files); plus accounts with 2-4 file secrets: file_integrity over the files named by the file log, clean and with one blob bit-flipped / truncated / extended / emptied / removed (exactly that file must be reported); distinct = distinct (account, position)");
    rep.write(&cli.out);
}
