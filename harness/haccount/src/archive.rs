//! C18: export / import of backup archives on real accounts (v2 file system, v3 sqlite),
//! and hostile archives built by rewriting a valid one entry by entry.
use crate::folder::served;
use crate::world::World;
use hcommon::{sha256, Cli, Report, Rng};
use serde_json::json;
use sos_account::{Account, LocalAccount};
use sos_archive::{ZipReader, ZipWriter};
use sos_backend::{archive::{export_backup_archive, import_backup_archive}, BackendTarget};
use sos_core::{crypto::AccessKey, Paths};
use std::collections::BTreeMap;
use std::path::{Path, PathBuf};

fn tree(dir: &Path) -> BTreeMap<String, String> {
    fn walk(d: &Path, base: &Path, out: &mut BTreeMap<String, String>) {
        if let Ok(rd) = std::fs::read_dir(d) { for e in rd.flatten() { let p = e.path(); if p.is_dir() { walk(&p, base, out); } else if let Ok(b) = std::fs::read(&p) { out.insert(p.strip_prefix(base).unwrap().display().to_string(), hex::encode(&sha256(&b)[..8])); } } }
    }
    let mut m = BTreeMap::new(); walk(dir, dir, &mut m); m
}

pub async fn read_entries(zip: &Path) -> anyhow::Result<Vec<(String, Vec<u8>)>> {
    let f = tokio::io::BufReader::new(tokio::fs::File::open(zip).await?);
    let mut r = ZipReader::new(f).await?;
    let names: Vec<String> = r.inner().file().entries().iter().filter_map(|e| e.filename().as_str().ok().map(|s| s.to_string())).collect();
    let mut out = vec![];
    for n in names { if let Some(b) = r.by_name(&n).await? { out.push((n, b)); } }
    Ok(out)
}
async fn write_entries(zip: &Path, entries: &[(String, Vec<u8>)]) -> anyhow::Result<()> {
    let f = tokio::fs::File::create(zip).await?;
    let mut w = ZipWriter::new(f);
    for (n, b) in entries { w.add_file(n, b).await?; }
    use tokio::io::AsyncWriteExt;
    let mut inner = w.finish().await?.into_inner();
    inner.flush().await?;
    Ok(())
}

async fn fresh_target(base: &Path, backend: &str, name: &str) -> anyhow::Result<(BackendTarget, PathBuf)> {
    let dir = base.join(name);
    std::fs::create_dir_all(&dir)?;
    let paths = Paths::new_client(&dir);
    if backend == "db" {
        std::fs::create_dir_all(paths.documents_dir())?;
        let mut client = sos_database::open_file(paths.database_file()).await?;
        sos_database::migrations::migrate_client(&mut client).await?;
        Ok((BackendTarget::Database(paths, client), dir))
    } else {
        Paths::scaffold(paths.documents_dir()).await?;
        Ok((BackendTarget::FileSystem(paths), dir))
    }
}

async fn snapshot(a: &mut LocalAccount) -> Result<BTreeMap<String, (u64, String, Vec<String>)>, String> {
    let mut out = BTreeMap::new();
    for s in a.list_folders().await.map_err(|e| e.to_string())? {
        let v = served(a, s.id()).await?;
        let mut c: Vec<String> = v.secrets.iter().map(|x| format!("{}:{}", x.0, x.1)).collect(); c.sort();
        out.insert(format!("{}:{}", s.id(), v.name), (v.flags, v.desc, c));
    }
    Ok(out)
}

pub async fn run_case(backend: &str, seed: u64, rep: &mut Report) -> anyhow::Result<()> {
    let mut rng = Rng::new(seed ^ 0x18);
    let w = World::new(1, backend).await?;
    let key: AccessKey = w.password.clone().into();
    { let mut a = w.devices[0].lock().await; crate::upgrade::history(&mut a, seed, true).await?; }
    let before = { let mut a = w.devices[0].lock().await; snapshot(&mut a).await.map_err(|e| anyhow::anyhow!(e))? };
    let files_before = { let a = w.devices[0].lock().await; crate::upgrade::attachments(&a).await.map_err(|e| anyhow::anyhow!(e))? };
    // a server list and / or preferences next to the account (all four combinations over the cases)
    let (with_servers, with_prefs) = (seed % 2 == 1, seed % 4 < 2);
    if with_prefs { crate::upgrade::add_extras(&{ let a = w.devices[0].lock().await; a.backend_target().await }, &w.account_id, seed, with_servers).await?; }
    else if with_servers { use sos_core::RemoteOrigins; let t = { let a = w.devices[0].lock().await; a.backend_target().await }; let mut so = sos_backend::ServerOrigins::new(t, &w.account_id); so.add_server(sos_core::Origin::new("only-a-server".into(), "https://sync.example.com:5053/".parse().unwrap())).await.map_err(|e| anyhow::anyhow!(e.to_string()))?; }
    rep.count(&format!("{backend}:extras:servers={with_servers}:preferences={with_prefs}"));
    let extras_before = { let a = w.devices[0].lock().await; let t = a.backend_target().await; crate::upgrade::extras(&a, &t, &w.account_id).await };
    let status_before = { use sos_sync::SyncStorage; let a = w.devices[0].lock().await; a.sync_status().await.map_err(|e| anyhow::anyhow!(e.to_string()))? };
    let devices_before = { let a = w.devices[0].lock().await; a.trusted_devices().await.map(|d| d.len()).unwrap_or(0) };
    rep.count(&format!("{backend}:attachments:{}", files_before.len()));
    let src_target = { let a = w.devices[0].lock().await; a.backend_target().await };
    let zip = w.tmp.path().join("backup.zip");
    export_backup_archive(&zip, &src_target, &w.account_id).await?;
    let entries = read_entries(&zip).await?;
    rep.count_n(&format!("{backend}:archive-entries"), entries.len() as u64);
    // 1. round trip into empty storage
    // the import targets live eight levels below `moat`, so that an entry climbing out of its target with up to
    // a dozen `..` still lands inside the directory whose tree is compared before / after
    let moat = w.tmp.path().join("moat");
    let arena = moat.join("l1/l2/l3/l4/l5/l6/l7/l8/arena");
    let arena_rel = "l1/l2/l3/l4/l5/l6/l7/l8/arena";
    let (t_ok, _) = fresh_target(&arena, backend, "restore-ok").await?;
    rep.case(&format!("{backend}:{seed}:roundtrip"), true);
    match import_backup_archive(&zip, &t_ok).await {
        Ok(_) => {
            match LocalAccount::new_unauthenticated(w.account_id, t_ok.clone()).await {
                Ok(mut r) => match r.sign_in(&key).await {
                    Ok(_) => {
                        let after = snapshot(&mut r).await.map_err(|e| anyhow::anyhow!(e))?;
                        if after != before {
                            let what = if after.keys().ne(before.keys()) { "folders" } else { "contents" };
                            rep.spec_fail(&format!("c18-restored-account-differs-{what}-{backend}"), json!({"case_seed": seed, "backend": backend, "before": before.len(), "after": after.len()}), "the account restored from its own backup archive serves different folders / secrets");
                        }
                        // the event logs: a sqlite archive carries the tables, so every log must come back with the same
                        // commit state (a file-system archive carries vaults, its folder logs are rebuilt: only counted there)
                        {
                            use sos_sync::SyncStorage;
                            match r.sync_status().await {
                                Ok(st) => {
                                    let mut differ = vec![];
                                    if st.identity != status_before.identity { differ.push("identity"); }
                                    if st.account != status_before.account { differ.push("account"); }
                                    if st.device != status_before.device { differ.push("device"); }
                                    if st.files != status_before.files { differ.push("files"); }
                                    if st.folders != status_before.folders { differ.push("folders"); }
                                    rep.count(&format!("{backend}:restored-status:{}", if differ.is_empty() { "same".to_string() } else { differ.join("+") }));
                                    if backend == "db" && !differ.is_empty() {
                                        rep.spec_fail(&format!("c18-restored-account-differs-event-logs-{}-{backend}", differ.join("+")), json!({"case_seed": seed, "backend": backend, "logs": differ}), "the account restored from its own sqlite archive has other commit states (other event logs) than the exported account");
                                    }
                                }
                                Err(e) => rep.spec_fail(&format!("c18-restored-account-status-unreadable-{backend}"), json!({"case_seed": seed}), &e.to_string()),
                            }
                            let devices_after = r.trusted_devices().await.map(|d| d.len()).unwrap_or(0);
                            if devices_after != devices_before { rep.spec_fail(&format!("c18-restored-account-differs-trusted-devices-{backend}"), json!({"case_seed": seed, "before": devices_before, "after": devices_after}), "the restored account trusts another number of devices"); }
                        }
                        // server list and account preferences
                        match (&extras_before, crate::upgrade::extras(&r, &r.backend_target().await, &w.account_id).await) {
                            (Ok(b), Ok(af)) => { if b.1 != af.1 { rep.spec_fail(&format!("c18-restored-account-differs-servers-{backend}"), json!({"case_seed": seed, "before": b.1, "after": af.1}), "the restored account has another server list"); }
                                if b.2 != af.2 { rep.spec_fail(&format!("c18-restored-account-differs-preferences-{backend}"), json!({"case_seed": seed, "before": b.2, "after": af.2}), "the restored account has other preferences"); } }
                            (Err(e), _) => rep.spec_fail("c18-harness-extras-error-before", json!({"case_seed": seed}), e),
                            (_, Err(e)) => rep.spec_fail(&format!("c18-restored-account-extras-unreadable-{backend}"), json!({"case_seed": seed}), &e),
                        }
                        match crate::upgrade::attachments(&r).await {
                            Ok(files_after) => if files_after != files_before {
                                rep.spec_fail(&format!("c18-restored-account-differs-attachments-{backend}"), json!({"case_seed": seed, "backend": backend, "before": files_before, "after": files_after}), "the account restored from its own backup archive serves different attachments");
                            },
                            Err(e) => rep.spec_fail(&format!("c18-restored-account-attachments-unreadable-{backend}"), json!({"case_seed": seed}), &e),
                        }
                        let _ = r.sign_out().await;
                    }
                    Err(e) => rep.spec_fail(&format!("c18-restored-account-does-not-sign-in-{backend}"), json!({"case_seed": seed}), &e.to_string()),
                },
                Err(e) => rep.spec_fail(&format!("c18-restored-account-does-not-open-{backend}"), json!({"case_seed": seed}), &e.to_string()),
            }
        }
        Err(e) => rep.spec_fail(&format!("c18-valid-archive-rejected-{backend}"), json!({"case_seed": seed}), &e.to_string()),
    }
    // 2. hostile archives: one entry changed at a time
    let mut variants: Vec<(String, Vec<(String, Vec<u8>)>)> = vec![];
    for (i, (name, body)) in entries.iter().enumerate() {
        if name == "sos-manifest.json" {
            // alter one checksum inside the manifest
            let text = String::from_utf8_lossy(body).to_string();
            if let Some(pos) = text.find(|c: char| c.is_ascii_hexdigit() && text[text.find(c).unwrap()..].len() > 70) {
                let mut t = text.clone().into_bytes();
                // find a 64-hex run and flip one digit
                let mut run = 0; let mut at = None;
                for (j, ch) in t.iter().enumerate() { if (*ch as char).is_ascii_hexdigit() { run += 1; if run == 64 { at = Some(j); break; } } else { run = 0; } }
                if let Some(j) = at { t[j] = if t[j] == b'0' { b'1' } else { b'0' }; let mut e = entries.clone(); e[i].1 = t; variants.push(("manifest-checksum-altered".into(), e)); }
                let _ = pos;
            }
            continue;
        }
        // attachment blobs are not listed in the manifest (a blob is named by its own digest): a changed blob is
        // a separate variant with a weaker oracle (whatever the verdict: nothing escapes, a rejection leaves nothing)
        let is_blob = name.starts_with("files/") || name.starts_with("blobs/");
        if is_blob {
            if !body.is_empty() && !variants.iter().any(|v| v.0.starts_with("blob-byte")) {
                let mut e = entries.clone();
                let p = rng.below(body.len() as u64) as usize;
                e[i].1[p] ^= 1 << rng.below(8);
                variants.push(("blob-byte:attachment".to_string(), e));
            }
            continue;
        }
        if !body.is_empty() && variants.iter().filter(|v| v.0.starts_with("content-byte")).count() < 4 {
            let mut e = entries.clone();
            let p = rng.below(body.len() as u64) as usize;
            e[i].1[p] ^= 1 << rng.below(8);
            variants.push((format!("content-byte:{}", name.rsplit('.').next().unwrap_or("")), e));
        }
    }
    // hostile names (added entries and renamed blob entries)
    let evil_names = ["../escape-dotdot.txt", "../../escape-dotdot2.txt", "/tmp/verif-escape-abs.txt", "C:\\verif-escape-drive.txt", "files/../../escape-nested.txt"];
    for ev in evil_names {
        let mut e = entries.clone();
        e.push((ev.to_string(), b"escaped".to_vec()));
        variants.push((format!("extra-entry:{}", ev), e));
    }
    // names that start like a real entry (so that prefix guards accept them) and then climb out: for one entry
    // of each top-level directory, every directory prefix of its name followed by runs of `..`
    {
        let mut seen_top: std::collections::BTreeSet<String> = Default::default();
        for (name, _) in entries.iter() {
            let parts: Vec<&str> = name.split('/').collect();
            if parts.len() < 2 || !seen_top.insert(parts[0].to_string()) { continue; }
            for cut in 1..parts.len() {
                let heights: Vec<usize> = if seed % 1_000_003 == 0 { (1..=10).collect() } else { vec![1 + (rng.below(3) as usize), 4 + (rng.below(3) as usize), 7 + (rng.below(3) as usize)] };
                for ups in heights.into_iter().map(|h| cut + h - 1) {
                    let ev = format!("{}/{}escape-{cut}-{ups}.txt", parts[..cut].join("/"), "../".repeat(ups));
                    let mut e = entries.clone();
                    e.push((ev.clone(), b"escaped".to_vec()));
                    variants.push((format!("extra-entry-climbing:{}", ev), e));
                }
            }
        }
    }
    if let Some(i) = entries.iter().position(|(n, _)| n != "sos-manifest.json") {
        let mut e = entries.clone(); let dup = e[i].clone(); e.push(dup);
        variants.push(("duplicate-entry".into(), e));
        let mut e = entries.clone(); e.remove(i);
        variants.push(("missing-entry".into(), e));
    }
    let parent_before = tree(w.tmp.path());
    let _ = parent_before;
    for (k, (what, ents)) in variants.iter().enumerate() {
        let hz = w.tmp.path().join(format!("hostile-{k}.zip"));
        write_entries(&hz, ents).await?;
        let (t, dir) = fresh_target(&arena, backend, &format!("restore-h{k}")).await?;
        let arena_before = tree(&moat);
        let t_before = tree(&dir);
        let res = std::panic::AssertUnwindSafe(import_backup_archive(&hz, &t));
        let res = futures::FutureExt::catch_unwind(res).await;
        let arena_after = tree(&moat);
        let t_after = tree(&dir);
        let kind = what.split(':').next().unwrap().to_string();
        rep.case(&format!("{backend}:{seed}:{what}"), true);
        rep.count(&format!("{backend}:{kind}:{}", match &res { Ok(Ok(_)) => "accepted", Ok(Err(_)) => "rejected", Err(_) => "panic" }));
        // nothing may be written outside the import target
        let outside: Vec<&String> = arena_after.keys().filter(|p| !p.starts_with(&format!("{arena_rel}/restore-h{k}/")) && arena_before.get(*p) != arena_after.get(*p)).collect();
        let outside_owned: Vec<String> = outside.iter().map(|p| p.to_string()).collect();
        let escaped_abs = Path::new("/tmp/verif-escape-abs.txt").exists();
        if !outside.is_empty() || escaped_abs {
            rep.spec_fail(&format!("c18-archive-entry-escapes-target-{backend}"), json!({"case_seed": seed, "backend": backend, "variant": what, "outside": outside.iter().take(3).collect::<Vec<_>>()}), "importing the archive wrote outside the import target directory");
            let _ = std::fs::remove_file("/tmp/verif-escape-abs.txt");
        }
        match res {
            Err(_) => rep.spec_fail(&format!("c18-import-panics-{kind}-{backend}"), json!({"case_seed": seed, "variant": what}), "importing a malformed archive panicked"),
            Ok(Ok(_)) => {
                if kind == "content-byte" || kind == "manifest-checksum-altered" {
                    rep.spec_fail(&format!("c18-checksum-mismatch-accepted-{kind}-{backend}"), json!({"case_seed": seed, "variant": what}), "an archive whose entry does not match its manifest checksum was imported");
                }
            }
            Ok(Err(_)) => {
                // rejected: no account may have been created in the target
                let created: Vec<&String> = t_after.keys().filter(|p| t_before.get(*p) != t_after.get(*p)).collect();
                let account_made = created.iter().any(|p| p.contains(&w.account_id.to_string())) && backend == "fs";
                if account_made {
                    rep.spec_fail(&format!("c18-rejected-archive-left-account-files-{kind}-{backend}"), json!({"case_seed": seed, "variant": what, "files": created.iter().take(4).collect::<Vec<_>>()}), "a rejected archive left account files in the import target");
                }
            }
        }
        // leave the moat as it was (whatever escaped is removed too, so that the next variant starts clean)
        drop(t);
        let _ = std::fs::remove_file(&hz);
        let _ = std::fs::remove_dir_all(&dir);
        for p in outside_owned { let _ = std::fs::remove_file(moat.join(p)); }
    }
    // 3. raw corruption of the zip container itself (C15): the reader must answer with an error or an account
    {
        let raw = std::fs::read(&zip)?;
        let n = raw.len();
        let mut muts: Vec<(&str, Vec<u8>)> = vec![("empty", vec![]), ("one-byte", vec![0x50])];
        for i in 0..24 { let cut = if i < 12 { n.saturating_sub(1 + i * 7) } else { rng.below(n as u64) as usize }; muts.push(("truncated", raw[..cut].to_vec())); }
        for i in 0..48 { let mut x = raw.clone(); let p = if i < 24 { n - 1 - rng.below(n.min(400) as u64) as usize } else { rng.below(n as u64) as usize }; x[p] ^= 1 << rng.below(8); muts.push((if i < 24 { "bitflip-central-directory" } else { "bitflip" }, x)); }
        for _ in 0..8 { let a = rng.below(n as u64) as usize; let b = rng.below(n as u64) as usize; let mut x = raw[..a].to_vec(); x.extend_from_slice(&raw[b..]); muts.push(("splice", x)); }
        for _ in 0..8 { let mut x = raw.clone(); let p = rng.below((n - 3) as u64) as usize; x[p..p + 4].copy_from_slice(&(*rng.pick(&[0xffff_ffffu32, 0x7fff_ffff, 0, 0x0100_0000])).to_le_bytes()); muts.push(("length-edit", x)); }
        for (k, (kind, bytes)) in muts.into_iter().enumerate() {
            let hz = w.tmp.path().join(format!("raw-{k}.zip"));
            std::fs::write(&hz, &bytes)?;
            let (t, dir) = fresh_target(&arena, backend, &format!("restore-r{k}")).await?;
            let arena_before = tree(&arena);
            let t_before = tree(&dir);
            let fut = std::panic::AssertUnwindSafe(import_backup_archive(&hz, &t));
            let res = tokio::time::timeout(std::time::Duration::from_secs(30), futures::FutureExt::catch_unwind(fut)).await;
            let arena_after = tree(&arena);
            let t_after = tree(&dir);
            rep.case(&format!("{backend}:{seed}:raw:{kind}:{k}"), true);
            rep.count(&format!("{backend}:raw-{kind}:{}", match &res { Ok(Ok(Ok(_))) => "accepted", Ok(Ok(Err(_))) => "rejected", Ok(Err(_)) => "panic", Err(_) => "hang" }));
            match &res {
                Err(_) => rep.spec_fail(&format!("decode-hangs:archive-{backend}"), json!({"case_seed": seed, "kind": kind, "len": bytes.len()}), "importing a corrupted archive did not finish within 30 s"),
                Ok(Err(_)) => { let site = PANIC_SITE.lock().unwrap().clone(); rep.spec_fail(&format!("decode-panics:archive:{}", site.0), json!({"case_seed": seed, "backend": backend, "kind": kind, "len": bytes.len(), "panic": site.1}), "importing a corrupted archive panicked") }
                Ok(Ok(Err(_))) => {
                    let created: Vec<&String> = t_after.keys().filter(|p| t_before.get(*p) != t_after.get(*p)).collect();
                    // attachment blobs are extracted after the manifest has been verified; a container error in a later
                    // blob entry stops there, which the property does not speak about (no manifest checksum covers blobs):
                    // only vaults, logs and identity files count as "an account"
                    if backend == "fs" && created.iter().any(|p| p.contains(&w.account_id.to_string()) && !p.contains("/files/") && !p.contains("/blobs/")) { rep.spec_fail(&format!("c18-rejected-archive-left-account-files-raw-{kind}-{backend}"), json!({"case_seed": seed, "files": created.iter().take(4).collect::<Vec<_>>()}), "a rejected (corrupted) archive left account files in the import target"); }
                }
                Ok(Ok(Ok(_))) => {}
            }
            let outside: Vec<&String> = arena_after.keys().filter(|p| !p.starts_with(&format!("restore-r{k}/")) && arena_before.get(*p) != arena_after.get(*p)).collect();
            if !outside.is_empty() { rep.spec_fail(&format!("c18-archive-entry-escapes-target-{backend}"), json!({"case_seed": seed, "kind": kind, "outside": outside.iter().take(3).collect::<Vec<_>>()}), "importing a corrupted archive wrote outside the import target directory"); }
            let _ = std::fs::remove_file(&hz);
            let _ = std::fs::remove_dir_all(&dir);
        }
    }
    if seed % 3 == 0 { rep.sample(json!({"backend": backend, "entries": entries.iter().map(|e| e.0.clone()).collect::<Vec<_>>(), "variants": variants.iter().map(|v| v.0.clone()).collect::<Vec<_>>()})); }
    Ok(())
}

/// entry names built from components: real `sanitize_file_path` vs the model's walk
fn sanitize_corr(rep: &mut Report, seed: u64, n: usize, ops: &mut Vec<String>, imp: &mut Vec<String>) {
    let mut rng = Rng::new(seed ^ 0x5A71);
    for _ in 0..n {
        let len = rng.range(1, 6);
        let mut comps = vec![]; let mut name = String::new();
        for i in 0..len {
            let (tok, text) = match rng.below(6) { 0 => ("dd".to_string(), "..".to_string()), 1 => ("d".into(), ".".into()), 2 => ("e".into(), "".into()),
                k => { let v = rng.below(50); (format!("n{v}"), format!("name{v}{}", if k == 5 { ".txt" } else { "" })) } };
            if i > 0 { name.push(if rng.chance(1, 4) { '\\' } else { '/' }); }
            name.push_str(&text); comps.push(tok);
        }
        let p = sos_archive::sanitize_file_path(&name);
        let mut depth: i64 = 0; let mut escapes = false;
        for c in p.components() { match c { std::path::Component::Normal(_) => depth += 1, std::path::Component::CurDir => {}, std::path::Component::ParentDir => { depth -= 1; if depth < 0 { escapes = true; } }, _ => { escapes = true; } } }
        if escapes || p.is_absolute() {
            rep.spec_fail("c18-sanitized-entry-name-escapes", json!({"name": name, "sanitized": p.display().to_string()}), "sanitize_file_path left a component that leaves the target directory");
        }
        let op = format!("archive sanitize comps={}", comps.join(","));
        rep.case(&op, true);
        ops.push(op); imp.push(if escapes { "escapes".into() } else { format!("inside depth={depth}") });
    }
}

/// where the last panic happened: (crate/src/.../file.rs without the line, message with the line)
static PANIC_SITE: std::sync::Mutex<(String, String)> = std::sync::Mutex::new((String::new(), String::new()));

pub fn run(cli: &Cli) {
    std::panic::set_hook(Box::new(|info| {
        let file = info.location().map(|l| l.file().to_string()).unwrap_or_default();
        let parts: Vec<&str> = file.split('/').collect();
        let tail = parts[parts.len().saturating_sub(4)..].join("/");
        if std::env::var("ADEBUG").is_ok() { eprintln!("panic: {info}"); }
        *PANIC_SITE.lock().unwrap() = (tail, info.to_string().chars().take(300).collect());
    }));
    let property = cli.extra.get("property").cloned().unwrap_or("C18".into());
    let mut rep = Report::new(&property, "archive", cli.seed, &cli.tier);
    { let mut ops = vec![]; let mut imp = vec![]; sanitize_corr(&mut rep, cli.seed, if cli.tier == "thorough" { 20000 } else { 2000 }, &mut ops, &mut imp); rep.diff_streams("corr:archive/sanitize", &ops, &imp); }
    let rt = tokio::runtime::Builder::new_multi_thread().worker_threads(4).enable_all().build().unwrap();
    let n: u64 = cli.extra.get("cases").and_then(|s| s.parse().ok()).unwrap_or(if cli.tier == "thorough" { 8 } else { 3 });
    for backend in ["fs", "db"] {
        for k in 0..n {
            let case_seed = cli.seed.wrapping_mul(1_000_003).wrapping_add(k);
            if let Err(e) = rt.block_on(run_case(backend, case_seed, &mut rep)) {
                rep.notes.push(format!("case {backend}/{case_seed} aborted: {e}"));
                rep.spec_fail("c18-harness-aborted", json!({"case_seed": case_seed, "backend": backend}), &e.to_string());
            }
        }
    }
    rep.rule = format!("{n} accounts per archive version/backend pair (v2 file system, v3 sqlite) from generated histories: export, import into empty storage, sign in, compare decrypted folders; then hostile archives rebuilt from the valid one with a single change: \\
        one content byte of an entry, one manifest checksum digit, extra entries named ../x, ../../x, /abs, C:\\\\x, files/../../x, a duplicate entry, a missing entry; the directory tree around the import target is compared before/after");
    rep.write(&cli.out);
}
