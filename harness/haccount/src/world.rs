//! A server and N devices of one account, all real code, in one process.
use crate::bridge::{Bridge, Client, Gate};
use futures::StreamExt;
use secrecy::SecretString;
use sos_account::{Account, LocalAccount};
use sos_backend::BackendTarget;
use sos_core::{
    crypto::AccessKey,
    events::{EventLog, EventRecord},
    AccountId, Origin, Paths, VaultId,
};
use sos_protocol::SyncOptions;
use sos_remote_sync::AutoMerge;
use sos_server_storage::ServerStorage;
use sos_sync::{StorageEventLogs, SyncStatus, SyncStorage};
use std::path::{Path, PathBuf};
use std::sync::Arc;
use tokio::sync::{Mutex, RwLock};

pub struct World {
    pub tmp: tempfile::TempDir,
    pub account_id: AccountId,
    pub password: SecretString,
    pub server: Arc<RwLock<Option<ServerStorage>>>,
    pub server_target: BackendTarget,
    pub devices: Vec<Arc<Mutex<LocalAccount>>>,
    pub bridges: Vec<Bridge>,
    pub trace: Arc<std::sync::Mutex<Vec<String>>>,
    pub wire: Arc<std::sync::Mutex<Vec<Vec<u8>>>>,
    pub backend: String,
}

fn copy_dir(src: &Path, dst: &Path) -> std::io::Result<()> {
    std::fs::create_dir_all(dst)?;
    for e in std::fs::read_dir(src)? {
        let e = e?;
        let to = dst.join(e.file_name());
        if e.file_type()?.is_dir() {
            copy_dir(&e.path(), &to)?;
        } else {
            std::fs::copy(e.path(), &to)?;
        }
    }
    Ok(())
}

async fn client_target(dir: &PathBuf, backend: &str) -> anyhow::Result<BackendTarget> {
    let paths = Paths::new_client(dir);
    if backend == "db" {
        std::fs::create_dir_all(paths.documents_dir())?;
        let db_file = paths.database_file();
        let mut client = sos_database::open_file(&db_file).await?;
        sos_database::migrations::migrate_client(&mut client).await?;
        Ok(BackendTarget::Database(paths, client))
    } else {
        Paths::scaffold(paths.documents_dir()).await?;
        Ok(BackendTarget::FileSystem(paths))
    }
}

pub type Recs = Vec<(String, i128)>; // (commit hex, time nanos)

pub fn nanos(t: &sos_core::UtcDateTime) -> i128 {
    let s = t.to_rfc3339().unwrap();
    time::OffsetDateTime::parse(&s, &time::format_description::well_known::Rfc3339)
        .unwrap()
        .unix_timestamp_nanos()
}

async fn log_recs<T, L>(log: &L) -> Recs
where
    L: EventLog<T>,
    T: Default + binary_stream::futures::Encodable + binary_stream::futures::Decodable + Send + Sync + 'static,
{
    let stream = log.record_stream(false).await;
    futures::pin_mut!(stream);
    let mut out = vec![];
    while let Some(r) = stream.next().await {
        if let Ok(r) = r {
            let r: EventRecord = r;
            out.push((r.commit().to_string(), nanos(r.time())));
        }
    }
    out
}

/// All logs of a replica: name -> records.
pub async fn all_logs<S: StorageEventLogs>(s: &S) -> std::collections::BTreeMap<String, Recs>
where
    S::Error: std::fmt::Debug,
{
    let mut m = std::collections::BTreeMap::new();
    if let Ok(l) = s.identity_log().await { m.insert("identity".to_string(), log_recs(&*l.read().await).await); }
    if let Ok(l) = s.account_log().await { m.insert("account".to_string(), log_recs(&*l.read().await).await); }
    if let Ok(l) = s.device_log().await { m.insert("device".to_string(), log_recs(&*l.read().await).await); }
    if let Ok(l) = s.file_log().await { m.insert("files".to_string(), log_recs(&*l.read().await).await); }
    if let Ok(ids) = s.folder_details().await {
        for id in ids.iter().map(|s| *s.id()) {
            if let Ok(l) = s.folder_log(&id).await {
                m.insert(format!("folder:{}", id), log_recs(&*l.read().await).await);
            }
        }
    }
    m
}

impl World {
    pub async fn new(n_devices: usize, backend: &str) -> anyhow::Result<World> {
        let base = Path::new("/verif/run/tmp");
        std::fs::create_dir_all(base)?;
        let tmp = tempfile::Builder::new().prefix("world").tempdir_in(base)?;
        let password: SecretString = "correct horse battery staple verif".to_string().into();
        let d0 = tmp.path().join("dev0");
        std::fs::create_dir_all(&d0)?;
        let target0 = client_target(&d0, backend).await?;
        let mut acct0 = LocalAccount::new_account("verif".to_string(), password.clone(), target0).await?;
        let key: AccessKey = password.clone().into();
        acct0.sign_in(&key).await?;
        let _ = acct0.initialize_search_index().await;
        let account_id = *acct0.account_id();
        // server
        let sdir = tmp.path().join("server");
        std::fs::create_dir_all(&sdir)?;
        let spaths = Paths::new_server(&sdir);
        let server_target = if backend == "db" {
            std::fs::create_dir_all(spaths.documents_dir())?;
            let mut client = sos_database::open_file(spaths.database_file()).await?;
            sos_database::migrations::migrate_client(&mut client).await?;
            BackendTarget::Database(spaths, client)
        } else {
            Paths::scaffold(spaths.documents_dir()).await?;
            BackendTarget::FileSystem(spaths)
        };
        let server = Arc::new(RwLock::new(None));
        let trace = Arc::new(std::sync::Mutex::new(vec![]));
        let mut w = World {
            tmp, account_id, password, server, server_target, devices: vec![], bridges: vec![], trace, wire: Arc::new(std::sync::Mutex::new(vec![])),
            backend: backend.to_string(),
        };
        w.add_device(acct0);
        // first sync creates the account on the server
        w.sync(0).await.map_err(|e| anyhow::anyhow!("initial sync: {e}"))?;
        // further devices: copy of device 0's storage at this point
        for k in 1..n_devices {
            {
                let mut a = w.devices[0].lock().await;
                a.sign_out().await?;
            }
            let dk = w.tmp.path().join(format!("dev{k}"));
            copy_dir(&w.tmp.path().join("dev0"), &dk)?;
            {
                let mut a = w.devices[0].lock().await;
                a.sign_in(&key).await?;
                let _ = a.initialize_search_index().await;
            }
            let target = client_target(&dk, backend).await?;
            let mut acct = LocalAccount::new_unauthenticated(account_id, target).await?;
            acct.sign_in(&key).await?;
            let _ = acct.initialize_search_index().await;
            w.add_device(acct);
        }
        Ok(w)
    }

    fn add_device(&mut self, acct: LocalAccount) {
        let k = self.devices.len();
        let account = Arc::new(Mutex::new(acct));
        let (queue, _) = tokio::sync::broadcast::channel(8);
        let client = Client {
            origin: Origin::new("verif".to_string(), "http://127.0.0.1:1".parse().unwrap()),
            device: k,
            server: self.server.clone(),
            server_target: self.server_target.clone(),
            account_id: self.account_id,
            gate: Gate { tx: None },
            trace: self.trace.clone(),
            wire: Some(self.wire.clone()),
        };
        self.bridges.push(Bridge { account_id: self.account_id, account: account.clone(), client, queue });
        self.devices.push(account);
    }

    /// One `sync` call of device k: "ok", "conflict:soft", "conflict:hard" or "error:..".
    pub async fn sync(&self, k: usize) -> Result<String, String> {
        use sos_protocol::AsConflict;
        match self.bridges[k].execute_sync(&SyncOptions::default()).await {
            Ok(_) => Ok("ok".into()),
            Err(e) => {
                if e.is_hard_conflict() { Ok("conflict:hard".into()) }
                else if e.is_conflict() { Ok("conflict:soft".into()) }
                else { Err(format!("{e}")) }
            }
        }
    }

    pub async fn device_status(&self, k: usize) -> Option<SyncStatus> {
        let a = self.devices[k].lock().await;
        a.sync_status().await.ok()
    }
    pub async fn server_status(&self) -> Option<SyncStatus> {
        let r = self.server.read().await;
        match r.as_ref() { Some(s) => s.sync_status().await.ok(), None => None }
    }
    pub async fn device_logs(&self, k: usize) -> std::collections::BTreeMap<String, Recs> {
        let a = self.devices[k].lock().await;
        all_logs(&*a).await
    }
    pub async fn server_logs(&self) -> std::collections::BTreeMap<String, Recs> {
        let r = self.server.read().await;
        match r.as_ref() { Some(s) => all_logs(s).await, None => Default::default() }
    }
    pub fn default_folder_of(summaries: &[sos_vault::Summary]) -> Option<VaultId> {
        summaries.iter().find(|s| s.flags().is_default()).map(|s| *s.id())
    }
}
