//! C03 for device pairing: a real pairing session (offer on an authenticated device, accept on a
//! new one) runs through the relay of a live in-process server; every byte of the session passes a
//! recording TCP proxy.  The websocket frames of both directions are taken apart (client frames are
//! unmasked) and the payloads — everything the relay server ever held — are searched for the new
//! device's signing key, the account password and the secret markers, in raw, hex, base64 and
//! base58 forms.
use crate::auth::start_server;
use hcommon::Report;
use secrecy::SecretString;
use serde_json::json;
use sos_account::Account;
use sos_backend::BackendTarget;
use sos_core::{crypto::AccessKey, Origin, Paths};
use sos_net::{pairing::{AcceptPairing, OfferPairing}, NetworkAccount};
use sos_protocol::AccountSync;
use std::sync::{Arc, Mutex};
use tokio::io::{AsyncReadExt, AsyncWriteExt};

type Tape = Arc<Mutex<Vec<(bool, Arc<Mutex<Vec<u8>>>)>>>; // (client -> server?, bytes so far) per connection

async fn proxy(server: std::net::SocketAddr, tape: Tape) -> anyhow::Result<std::net::SocketAddr> {
    let listener = tokio::net::TcpListener::bind("127.0.0.1:0").await?;
    let addr = listener.local_addr()?;
    tokio::spawn(async move {
        loop {
            let Ok((mut inbound, _)) = listener.accept().await else { break };
            let tape = tape.clone();
            tokio::spawn(async move {
                let Ok(mut outbound) = tokio::net::TcpStream::connect(server).await else { return };
                let (mut ri, mut wi) = inbound.split();
                let (mut ro, mut wo) = outbound.split();
                let up = Arc::new(Mutex::new(Vec::<u8>::new()));
                let down = Arc::new(Mutex::new(Vec::<u8>::new()));
                let (u2, d2) = (up.clone(), down.clone());
                { let mut t = tape.lock().unwrap(); t.push((true, up.clone())); t.push((false, down.clone())); }
                let c2s = async { let mut buf = [0u8; 16384]; loop { match ri.read(&mut buf).await { Ok(0) | Err(_) => break, Ok(n) => { u2.lock().unwrap().extend_from_slice(&buf[..n]); if wo.write_all(&buf[..n]).await.is_err() { break; } } } } let _ = wo.shutdown().await; };
                let s2c = async { let mut buf = [0u8; 16384]; loop { match ro.read(&mut buf).await { Ok(0) | Err(_) => break, Ok(n) => { d2.lock().unwrap().extend_from_slice(&buf[..n]); if wi.write_all(&buf[..n]).await.is_err() { break; } } } } let _ = wi.shutdown().await; };
                tokio::join!(c2s, s2c);
            });
        }
    });
    Ok(addr)
}

/// payloads of the websocket frames in one direction of a connection (after the HTTP upgrade header)
fn ws_payloads(stream: &[u8]) -> Option<Vec<Vec<u8>>> {
    let head = stream.windows(4).position(|w| w == b"\r\n\r\n")?;
    let text = String::from_utf8_lossy(&stream[..head]).to_ascii_lowercase();
    if !text.contains("upgrade") { return None; }
    let mut p = head + 4;
    let mut out = vec![];
    while p + 2 <= stream.len() {
        let b1 = stream[p + 1];
        let masked = b1 & 0x80 != 0;
        let mut len = (b1 & 0x7f) as usize;
        p += 2;
        if len == 126 { if p + 2 > stream.len() { break; } len = u16::from_be_bytes([stream[p], stream[p + 1]]) as usize; p += 2; }
        else if len == 127 { if p + 8 > stream.len() { break; } len = u64::from_be_bytes(stream[p..p + 8].try_into().unwrap()) as usize; p += 8; }
        let key = if masked { if p + 4 > stream.len() { break; } let k = [stream[p], stream[p + 1], stream[p + 2], stream[p + 3]]; p += 4; Some(k) } else { None };
        if p + len > stream.len() { break; }
        let mut body = stream[p..p + len].to_vec();
        if let Some(k) = key { for (i, b) in body.iter_mut().enumerate() { *b ^= k[i % 4]; } }
        out.push(body);
        p += len;
    }
    Some(out)
}

fn byte_forms(name: &str, m: &[u8]) -> Vec<(String, Vec<u8>)> {
    use base64::Engine;
    let mut v = vec![(format!("{name}:raw"), m.to_vec()), (format!("{name}:hex"), hex::encode(m).into_bytes()), (format!("{name}:HEX"), hex::encode_upper(m).into_bytes()),
        (format!("{name}:base58"), bs58::encode(m).into_string().into_bytes())];
    for k in 0..3usize {
        let mut padded = vec![0u8; k]; padded.extend_from_slice(m);
        let s = base64::engine::general_purpose::STANDARD_NO_PAD.encode(&padded);
        let start = [0usize, 2, 3][k];
        if s.len() > start + 6 { let core = &s[start..s.len() - 2]; v.push((format!("{name}:base64@{k}"), core.as_bytes().to_vec())); v.push((format!("{name}:base64url@{k}"), core.replace('+', "-").replace('/', "_").into_bytes())); }
    }
    v
}

fn find(hay: &[u8], needle: &[u8]) -> bool {
    !needle.is_empty() && hay.len() >= needle.len() && hay.windows(needle.len()).any(|w| w == needle)
}

pub async fn run_case(inverted: bool, seed: u64, rep: &mut Report) -> anyhow::Result<()> {
    let live = start_server(None).await?;
    let tape: Tape = Default::default();
    let paddr = proxy(live.addr, tape.clone()).await?;
    let url: url::Url = format!("http://{}:{}", paddr.ip(), paddr.port()).parse()?;
    let origin = Origin::new("verif".to_string(), url.clone());
    let base = std::path::Path::new("/verif/run/tmp");
    let t1 = tempfile::Builder::new().prefix("pair-a").tempdir_in(base)?;
    let t2 = tempfile::Builder::new().prefix("pair-b").tempdir_in(base)?;
    let p1 = Paths::new_client(t1.path()); Paths::scaffold(p1.documents_dir()).await?;
    let p2 = Paths::new_client(t2.path()); Paths::scaffold(p2.documents_dir()).await?;
    let password = format!("pw-{:016x}-pairing-verif", seed);
    let secret_pw: SecretString = password.clone().into();
    let mut owner = NetworkAccount::new_account("pairing".to_string(), secret_pw.clone(), BackendTarget::FileSystem(p1), Default::default()).await?;
    let key: AccessKey = secret_pw.clone().into();
    owner.sign_in(&key).await?;
    let marker = format!("MK{:020x}", seed.wrapping_mul(0x9E37_79B9_7F4A_7C15));
    {
        let secret = sos_vault::secret::Secret::Note { text: marker.clone().into(), user_data: Default::default() };
        let meta = sos_vault::secret::SecretMeta::new(format!("label-{marker}"), secret.kind());
        owner.create_secret(meta, secret, Default::default()).await?;
    }
    owner.add_server(origin.clone()).await?;
    if let Some(e) = owner.sync().await.first_error() { anyhow::bail!("first sync: {e}"); }
    let device_meta: sos_core::device::DeviceMetaData = Default::default();
    let target2 = BackendTarget::FileSystem(p2);
    let enrolled = {
        let (_otx, offer_rx) = tokio::sync::mpsc::channel::<()>(1);
        let (_atx, accept_rx) = tokio::sync::mpsc::channel::<()>(1);
        let mut enrollment = if !inverted {
            let (mut offer, offer_stream) = OfferPairing::new(&mut owner, url.clone()).await?;
            let share = offer.share_url().clone();
            let (mut accept, accept_stream) = AcceptPairing::new(share, &device_meta, target2, Default::default()).await?;
            let (a, b) = tokio::join!(offer.run(offer_stream, offer_rx), accept.run(accept_stream, accept_rx));
            a.map_err(|e| anyhow::anyhow!("offer: {e}"))?; b.map_err(|e| anyhow::anyhow!("accept: {e}"))?;
            accept.take_enrollment()?
        } else {
            let account_id = *owner.account_id();
            let (share, mut accept, accept_stream) = AcceptPairing::new_inverted(account_id, url.clone(), &device_meta, target2, Default::default()).await?;
            let (mut offer, offer_stream) = OfferPairing::new_inverted(&mut owner, share).await?;
            let (a, b) = tokio::join!(offer.run(offer_stream, offer_rx), accept.run(accept_stream, accept_rx));
            a.map_err(|e| anyhow::anyhow!("offer: {e}"))?; b.map_err(|e| anyhow::anyhow!("accept: {e}"))?;
            accept.take_enrollment()?
        };
        enrollment.fetch_account().await?;
        enrollment.finish(&key).await?
    };
    // the secrets of the session
    let new_device_key: Vec<u8> = enrolled.device_signer().await?.to_bytes().to_vec();
    let owner_device_key: Vec<u8> = owner.device_signer().await?.to_bytes().to_vec();
    let _ = owner.sign_out().await;
    let mut enrolled = enrolled; let _ = enrolled.sign_out().await;
    live.handle.shutdown();
    tokio::time::sleep(std::time::Duration::from_millis(300)).await;
    let mut needles = byte_forms("new-device-signing-key", &new_device_key);
    needles.extend(byte_forms("offering-device-signing-key", &owner_device_key));
    needles.extend(byte_forms("account-password", password.as_bytes()));
    needles.extend(byte_forms("secret-text", marker.as_bytes()));
    let tape = tape.lock().unwrap();
    let mut relay_payload = 0usize; let mut relay_frames = 0usize; let mut conns = 0usize;
    for (up, buf) in tape.iter() {
        let bytes: Vec<u8> = buf.lock().unwrap().clone();
        let bytes = &bytes;
        conns += 1;
        if std::env::var("PDEBUG").is_ok() { eprintln!("conn up={} len={} head={:?}", up, bytes.len(), String::from_utf8_lossy(&bytes[..bytes.len().min(60)])); }
        // raw stream (HTTP requests / responses of the syncs and the account fetch, websocket frames as sent)
        for (name, n) in &needles { if find(bytes, n) { rep.spec_fail(&format!("c03-plaintext-in-pairing-session:{}", name), json!({"case_seed": seed, "inverted": inverted, "direction": if *up { "client-to-server" } else { "server-to-client" }, "where": "tcp-stream"}), "secret material is readable in the bytes exchanged with the server during pairing"); } }
        if let Some(frames) = ws_payloads(bytes) {
            for f in frames {
                relay_frames += 1; relay_payload += f.len();
                for (name, n) in &needles { if find(&f, n) { rep.spec_fail(&format!("c03-plaintext-in-pairing-session:{}", name), json!({"case_seed": seed, "inverted": inverted, "direction": if *up { "client-to-server" } else { "server-to-client" }, "where": "relay-frame", "len": f.len()}), "secret material is readable in a relayed pairing message"); } }
            }
        }
    }
    // positive control of the detector: the noise public keys of both parties (hex in the relay URL) address the relayed
    // packets, so their raw bytes must be found in the unmasked payloads
    let mut pubkeys: Vec<Vec<u8>> = vec![];
    let mut payloads: Vec<Vec<u8>> = vec![];
    for (up, buf) in tape.iter() {
        let bytes: Vec<u8> = buf.lock().unwrap().clone();
        if *up { if let Some(i) = bytes.windows(11).position(|w| w == b"public_key=") { let h: Vec<u8> = bytes[i + 11..].iter().copied().take_while(|c| c.is_ascii_hexdigit()).collect(); if let Ok(k) = hex::decode(&h) { pubkeys.push(k); } } }
        if let Some(fr) = ws_payloads(&bytes) { payloads.extend(fr); }
    }
    let seen = pubkeys.iter().filter(|k| payloads.iter().any(|p| find(p, k))).count();
    rep.count_n("pairing:control-public-keys-found-in-relayed-payloads", seen as u64);
    if pubkeys.len() < 2 || seen < 2 { rep.spec_fail("c03-harness-pairing-not-observed", json!({"public_keys": pubkeys.len(), "found": seen}), "the detector's positive control failed: the parties' public keys were not found in the unmasked relay payloads"); }
    rep.case(&format!("pairing:{}:{seed}", if inverted { "inverted" } else { "normal" }), true);
    rep.count_n("pairing:connections-recorded", conns as u64);
    rep.count_n("pairing:relay-frames", relay_frames as u64);
    rep.count_n("pairing:relay-payload-bytes", relay_payload as u64);
    if relay_frames < 4 { rep.spec_fail("c03-harness-pairing-not-observed", json!({"frames": relay_frames, "connections": conns}), "the recording proxy did not see the relay traffic of the pairing session"); }
    Ok(())
}
