//! Shared pieces of the correspondence harness: PRNG, symbolic-hash
//! evaluation, model driver runner, report writer.
use serde::Serialize;
use sha2::{Digest, Sha256};
use std::collections::{BTreeMap, HashSet};
use std::io::Write;
use std::path::PathBuf;
use std::process::{Command, Stdio};

/// SplitMix64: every random choice of a case derives from one state.
#[derive(Clone)]
pub struct Rng(pub u64);
impl Rng {
    pub fn new(seed: u64) -> Self {
        Rng(seed.wrapping_mul(0x9E3779B97F4A7C15) ^ 0xD1B54A32D192ED03)
    }
    pub fn next(&mut self) -> u64 {
        self.0 = self.0.wrapping_add(0x9E3779B97F4A7C15);
        let mut z = self.0;
        z = (z ^ (z >> 30)).wrapping_mul(0xBF58476D1CE4E5B9);
        z = (z ^ (z >> 27)).wrapping_mul(0x94D049BB133111EB);
        z ^ (z >> 31)
    }
    pub fn below(&mut self, n: u64) -> u64 {
        if n == 0 { 0 } else { self.next() % n }
    }
    pub fn range(&mut self, lo: u64, hi: u64) -> u64 {
        lo + self.below(hi - lo + 1)
    }
    pub fn chance(&mut self, num: u64, den: u64) -> bool {
        self.below(den) < num
    }
    pub fn pick<'a, T>(&mut self, xs: &'a [T]) -> &'a T {
        &xs[self.below(xs.len() as u64) as usize]
    }
    pub fn fork(&mut self) -> Rng {
        Rng(self.next())
    }
}

pub fn sha256(data: &[u8]) -> [u8; 32] {
    let mut h = Sha256::new();
    h.update(data);
    h.finalize().into()
}

/// Evaluate a symbolic hash term `L<hex>` / `N(a,b)` with real SHA-256.
pub fn eval_term(s: &str) -> Result<[u8; 32], String> {
    fn go(b: &[u8], pos: &mut usize) -> Result<[u8; 32], String> {
        if *pos >= b.len() {
            return Err("eof".into());
        }
        match b[*pos] {
            b'L' => {
                *pos += 1;
                let start = *pos;
                while *pos < b.len() && (b[*pos] as char).is_ascii_hexdigit() {
                    *pos += 1;
                }
                let bytes = hex::decode(&b[start..*pos]).map_err(|e| e.to_string())?;
                Ok(sha256(&bytes))
            }
            b'N' => {
                *pos += 2; // N(
                let l = go(b, pos)?;
                if b.get(*pos) != Some(&b',') {
                    return Err("expected ,".into());
                }
                *pos += 1;
                let r = go(b, pos)?;
                if b.get(*pos) != Some(&b')') {
                    return Err("expected )".into());
                }
                *pos += 1;
                let mut cat = l.to_vec();
                cat.extend_from_slice(&r);
                Ok(sha256(&cat))
            }
            c => Err(format!("bad term char {}", c as char)),
        }
    }
    let mut pos = 0;
    let r = go(s.as_bytes(), &mut pos)?;
    if pos != s.len() {
        return Err("trailing".into());
    }
    Ok(r)
}

/// Replace every `<term>` in a model reply by the hex digest it denotes.
pub fn concretize(line: &str) -> String {
    let mut out = String::with_capacity(line.len());
    let mut rest = line;
    while let Some(i) = rest.find('<') {
        out.push_str(&rest[..i]);
        let after = &rest[i + 1..];
        if let Some(j) = after.find('>') {
            match eval_term(&after[..j]) {
                Ok(h) => out.push_str(&hex::encode(h)),
                Err(e) => out.push_str(&format!("<!{}:{}>", e, &after[..j])),
            }
            rest = &after[j + 1..];
        } else {
            out.push_str(&rest[i..]);
            rest = "";
        }
    }
    out.push_str(rest);
    out
}

pub fn driver_path() -> PathBuf {
    std::env::var("SOSMODEL")
        .map(PathBuf::from)
        .unwrap_or_else(|_| PathBuf::from("/verif/lean/.lake/build/bin/sosmodel"))
}

/// Pipe the operation lines to the Lean model driver, one reply per line.
pub fn run_model(ops: &[String]) -> Vec<String> {
    let mut child = Command::new(driver_path())
        .stdin(Stdio::piped())
        .stdout(Stdio::piped())
        .spawn()
        .expect("spawn sosmodel (run `./check --setup`)");
    let mut stdin = child.stdin.take().unwrap();
    let data = ops.join("\n") + "\n";
    let writer = std::thread::spawn(move || {
        let _ = stdin.write_all(data.as_bytes());
    });
    let out = child.wait_with_output().expect("driver output");
    writer.join().ok();
    let text = String::from_utf8_lossy(&out.stdout);
    let lines: Vec<String> = text.lines().map(|s| s.to_string()).collect();
    lines
}

#[derive(Serialize, Clone)]
pub struct Disagreement {
    pub corr: String,
    pub op: String,
    pub impl_out: String,
    pub model_out: String,
}

#[derive(Serialize, Clone)]
pub struct SpecFailure {
    /// finding class: stable key matched against KNOWN_FINDINGS.json
    pub class: String,
    /// replayable case
    pub case: serde_json::Value,
    pub detail: String,
}

#[derive(Serialize, Default)]
pub struct Report {
    pub property: String,
    pub domain: String,
    pub seed: u64,
    pub tier: String,
    pub evaluations: u64,
    pub distinct_nontrivial: u64,
    pub rule: String,
    pub exhaustive: bool,
    pub samples: Vec<serde_json::Value>,
    pub distribution: BTreeMap<String, u64>,
    pub disagreement_count: u64,
    pub disagreements: Vec<Disagreement>,
    pub spec_failure_count: u64,
    pub spec_failures: Vec<SpecFailure>,
    pub spec_failure_classes: BTreeMap<String, u64>,
    pub notes: Vec<String>,
    #[serde(skip)]
    seen: HashSet<u64>,
}

impl Report {
    pub fn new(property: &str, domain: &str, seed: u64, tier: &str) -> Self {
        Report {
            property: property.into(),
            domain: domain.into(),
            seed,
            tier: tier.into(),
            ..Default::default()
        }
    }
    pub fn count(&mut self, key: &str) {
        *self.distribution.entry(key.to_string()).or_insert(0) += 1;
    }
    pub fn count_n(&mut self, key: &str, n: u64) {
        *self.distribution.entry(key.to_string()).or_insert(0) += n;
    }
    /// Record one evaluated case; `nontrivial` by the domain's rule; distinct by hash of the canonical script.
    pub fn case(&mut self, canonical: &str, nontrivial: bool) {
        self.evaluations += 1;
        if nontrivial {
            let h = u64::from_le_bytes(sha256(canonical.as_bytes())[..8].try_into().unwrap());
            if self.seen.insert(h) {
                self.distinct_nontrivial += 1;
            }
        }
    }
    pub fn sample(&mut self, v: serde_json::Value) {
        if self.samples.len() < 6 {
            self.samples.push(v);
        }
    }
    pub fn disagree(&mut self, corr: &str, op: &str, impl_out: &str, model_out: &str) {
        self.disagreement_count += 1;
        if self.disagreements.len() < 25 {
            self.disagreements.push(Disagreement {
                corr: corr.into(),
                op: op.into(),
                impl_out: impl_out.into(),
                model_out: model_out.into(),
            });
        }
    }
    pub fn spec_fail(&mut self, class: &str, case: serde_json::Value, detail: &str) {
        self.spec_failure_count += 1;
        let n = self.spec_failure_classes.entry(class.to_string()).or_insert(0);
        *n += 1;
        // keep the first few (smallest first is arranged by callers) of each class
        if *n <= 3 {
            self.spec_failures.push(SpecFailure {
                class: class.into(),
                case,
                detail: detail.into(),
            });
        }
    }
    /// Compare implementation lines with the model's replies (after evaluating
    /// symbolic hashes) and record disagreements.
    pub fn diff_streams(&mut self, corr: &str, ops: &[String], impl_lines: &[String]) {
        let model = run_model(ops);
        if model.len() != ops.len() {
            self.disagree(
                corr,
                "<stream>",
                &format!("{} ops", ops.len()),
                &format!("{} replies (driver died?)", model.len()),
            );
        }
        for (i, op) in ops.iter().enumerate() {
            let m = model.get(i).map(|s| concretize(s)).unwrap_or_default();
            if m != impl_lines[i] {
                self.disagree(corr, op, &impl_lines[i], &m);
            }
        }
    }
    pub fn write(&self, path: &str) {
        let s = serde_json::to_string_pretty(self).unwrap();
        if let Some(parent) = std::path::Path::new(path).parent() {
            let _ = std::fs::create_dir_all(parent);
        }
        std::fs::write(path, s).expect("write report");
    }
}

/// Common CLI: `<bin> <domain> --seed N --tier quick|thorough --out file [--replay file]`.
pub struct Cli {
    pub domain: String,
    pub seed: u64,
    pub tier: String,
    pub out: String,
    pub replay: Option<String>,
    pub extra: BTreeMap<String, String>,
}
pub fn parse_cli() -> Cli {
    let args: Vec<String> = std::env::args().collect();
    let mut cli = Cli {
        domain: args.get(1).cloned().unwrap_or_default(),
        seed: 1,
        tier: "quick".into(),
        out: "/dev/stdout".into(),
        replay: None,
        extra: BTreeMap::new(),
    };
    let mut i = 2;
    while i < args.len() {
        let k = args[i].trim_start_matches("--").to_string();
        let v = args.get(i + 1).cloned().unwrap_or_default();
        match k.as_str() {
            "seed" => cli.seed = v.parse().unwrap_or(1),
            "tier" => cli.tier = v,
            "out" => cli.out = v,
            "replay" => cli.replay = Some(v),
            _ => {
                cli.extra.insert(k, v);
            }
        }
        i += 2;
    }
    cli
}
