mod log;
mod fstream;
use hcommon::parse_cli;

fn main() {
    let cli = parse_cli();
    match cli.domain.as_str() {
        "log" => log::run(&cli),
        "fstream" => fstream::run(&cli),
        d => {
            eprintln!("unknown domain {d}");
            std::process::exit(2);
        }
    }
}
