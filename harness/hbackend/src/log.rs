//! corr:log/* — real `BackendEventLog::{FileSystem, Database}` of all log
//! types, several co-resident logs, vs the Lean `Log` model; C06/C07 oracles.
use futures::StreamExt;
use hcommon::{sha256, Cli, Report, Rng};
use rs_merkle::{algorithms::Sha256, MerkleProof};
use serde_json::json;
use sos_backend::BackendEventLog;
use sos_core::{
    commit::{CommitHash, CommitProof, CommitTree},
    events::{
        patch::{CheckedPatch, Diff, Patch},
        AccountEvent, DeviceEvent, EventLog, EventLogType, EventRecord, FileEvent, WriteEvent,
    },
    AccountId, SecretId, UtcDateTime, VaultId,
};
use sos_database::{
    async_sqlite::Client,
    entity::{AccountEntity, AccountRow, FolderEntity, FolderRow},
};
use sos_vault::Vault;
use sos_core::VaultFlags;
use std::path::PathBuf;
use time::OffsetDateTime;

type BErr = sos_backend::Error;

pub enum AnyLog {
    W(BackendEventLog<WriteEvent>),
    A(BackendEventLog<AccountEvent>),
    D(BackendEventLog<DeviceEvent>),
    F(BackendEventLog<FileEvent>),
}

macro_rules! with_log {
    ($any:expr, $l:ident => $e:expr) => {
        match $any {
            AnyLog::W($l) => $e,
            AnyLog::A($l) => $e,
            AnyLog::D($l) => $e,
            AnyLog::F($l) => $e,
        }
    };
}

#[derive(Clone)]
pub enum Desc {
    FsFolder(PathBuf, AccountId, EventLogType),
    FsAccount(PathBuf, AccountId),
    FsDevice(PathBuf, AccountId),
    FsFile(PathBuf, AccountId),
    DbFolder(AccountId, VaultId),
    DbAccount(AccountId),
    DbDevice(AccountId),
    DbFile(AccountId),
}

async fn open(desc: &Desc, client: &Option<Client>) -> anyhow::Result<AnyLog> {
    use sos_database::DatabaseEventLog as Db;
    use sos_filesystem::FileSystemEventLog as Fs;
    Ok(match desc {
        Desc::FsFolder(p, a, t) => AnyLog::W(BackendEventLog::FileSystem(
            Fs::<WriteEvent, BErr>::new_folder(p, *a, *t).await?,
        )),
        Desc::FsAccount(p, a) => AnyLog::A(BackendEventLog::FileSystem(
            Fs::<AccountEvent, BErr>::new_account(p, *a).await?,
        )),
        Desc::FsDevice(p, a) => AnyLog::D(BackendEventLog::FileSystem(
            Fs::<DeviceEvent, BErr>::new_device(p, *a).await?,
        )),
        Desc::FsFile(p, a) => AnyLog::F(BackendEventLog::FileSystem(
            Fs::<FileEvent, BErr>::new_file(p, *a).await?,
        )),
        Desc::DbFolder(a, f) => AnyLog::W(BackendEventLog::Database(
            Db::<WriteEvent, BErr>::new_folder(client.clone().unwrap(), *a, *f).await?,
        )),
        Desc::DbAccount(a) => AnyLog::A(BackendEventLog::Database(
            Db::<AccountEvent, BErr>::new_account(client.clone().unwrap(), *a).await?,
        )),
        Desc::DbDevice(a) => AnyLog::D(BackendEventLog::Database(
            Db::<DeviceEvent, BErr>::new_device(client.clone().unwrap(), *a).await?,
        )),
        Desc::DbFile(a) => AnyLog::F(BackendEventLog::Database(
            Db::<FileEvent, BErr>::new_file(client.clone().unwrap(), *a).await?,
        )),
    })
}

fn nanos(t: &UtcDateTime) -> i128 {
    let s = t.to_rfc3339().unwrap();
    OffsetDateTime::parse(&s, &time::format_description::well_known::Rfc3339)
        .unwrap()
        .unix_timestamp_nanos()
}
fn mk_time(n: i128) -> UtcDateTime {
    OffsetDateTime::from_unix_timestamp_nanos(n).unwrap().into()
}

fn show_rec(r: &EventRecord) -> String {
    format!("{}:{}:{}", nanos(r.time()), r.commit(), hex::encode(r.event_bytes()))
}
fn show_recs(rs: &[EventRecord]) -> String {
    if rs.is_empty() { "-".into() } else { rs.iter().map(show_rec).collect::<Vec<_>>().join(",") }
}
fn show_leaves(l: &[[u8; 32]]) -> String {
    if l.is_empty() { "-".into() } else { l.iter().map(hex::encode).collect::<Vec<_>>().join(",") }
}
fn show_proof(p: &CommitProof) -> String {
    let hs = p.proof.proof_hashes();
    let hs = if hs.is_empty() { "-".to_string() } else { hs.iter().map(hex::encode).collect::<Vec<_>>().join(";") };
    format!("{}|{}|{}|{}", p.root, hs, p.length,
        p.indices.iter().map(|i| i.to_string()).collect::<Vec<_>>().join(","))
}

async fn rows(any: &AnyLog, reverse: bool) -> Result<Vec<EventRecord>, String> {
    with_log!(any, l => {
        let stream = l.record_stream(reverse).await;
        futures::pin_mut!(stream);
        let mut out = vec![];
        while let Some(r) = stream.next().await {
            match r { Ok(r) => out.push(r), Err(e) => return Err(e.to_string()) }
        }
        Ok(out)
    })
}
fn leaves(any: &AnyLog) -> Vec<[u8; 32]> {
    with_log!(any, l => l.tree().leaves().unwrap_or_default())
}

/// A record description on the protocol line: time/bytes (commit = sha256(bytes)).
#[derive(Clone)]
struct RecD { t: i128, bytes: Vec<u8> }
impl RecD {
    fn real(&self) -> EventRecord {
        EventRecord::new(mk_time(self.t), Default::default(), CommitHash(sha256(&self.bytes)), self.bytes.clone())
    }
    fn show(&self) -> String { format!("{}/{}", self.t, hex::encode(&self.bytes)) }
}
fn show_recds(rs: &[RecD]) -> String {
    if rs.is_empty() { "-".into() } else { rs.iter().map(|r| r.show()).collect::<Vec<_>>().join(",") }
}

/// Checkpoint description: head proof of a sequence of event payloads, or forged.
#[derive(Clone)]
enum CpD { Head(Vec<Vec<u8>>), Forged { root: Vec<u8>, hashes: Vec<Vec<u8>>, len: usize, idx: usize }, RootOf { seq: Vec<Vec<u8>>, hashes: Vec<Vec<u8>>, len: usize, idx: usize } }
impl CpD {
    fn show(&self) -> String {
        match self {
            CpD::Head(seq) => format!("H:{}", if seq.is_empty() { "-".into() } else { seq.iter().map(hex::encode).collect::<Vec<_>>().join(",") }),
            CpD::Forged { root, hashes, len, idx } => format!("F:{}|{}|{}|{}", hex::encode(root),
                if hashes.is_empty() { "-".into() } else { hashes.iter().map(hex::encode).collect::<Vec<_>>().join(",") }, len, idx),
            CpD::RootOf { seq, hashes, len, idx } => format!("F:R:{}|{}|{}|{}", seq.iter().map(hex::encode).collect::<Vec<_>>().join(","),
                if hashes.is_empty() { "-".into() } else { hashes.iter().map(hex::encode).collect::<Vec<_>>().join(",") }, len, idx),
        }
    }
    fn real(&self) -> Option<CommitProof> {
        match self {
            CpD::Head(seq) => {
                if seq.is_empty() { return None; }
                let mut t = CommitTree::new();
                let mut l: Vec<[u8; 32]> = seq.iter().map(|b| sha256(b)).collect();
                t.append(&mut l);
                t.commit();
                t.head().ok()
            }
            CpD::RootOf { seq, hashes, len, idx } => {
                if seq.is_empty() { return None; }
                let mut t = CommitTree::new();
                let mut l: Vec<[u8; 32]> = seq.iter().map(|b| sha256(b)).collect();
                t.append(&mut l);
                t.commit();
                Some(CommitProof {
                    root: t.root()?,
                    proof: MerkleProof::<Sha256>::new(hashes.iter().map(|b| sha256(b)).collect()),
                    length: *len,
                    indices: vec![*idx],
                })
            }
            CpD::Forged { root, hashes, len, idx } => Some(CommitProof {
                root: CommitHash(sha256(root)),
                proof: MerkleProof::<Sha256>::new(hashes.iter().map(|b| sha256(b)).collect()),
                length: *len,
                indices: vec![*idx],
            }),
        }
    }
}

struct Case {
    logs: Vec<AnyLog>,
    descs: Vec<Desc>,
    client: Option<Client>,
    // harness-side mirror of each log's payload sequence (oracle + generators)
    mirror: Vec<Vec<RecD>>,
    _tmp: tempfile::TempDir,
}

fn err_kind(e: &str) -> String {
    let e = e.to_lowercase();
    if e.contains("does not have a root") { "err:no-root-commit".into() }
    else if e.starts_with("commit '") && e.contains("could not be found") { "err:commit-not-found".into() }
    else if e.contains("rewind failed") { "err:rewind-leaves-length".into() }
    else if e.contains("checkpoint verification") { "err:checkpoint-verification".into() }
    else { format!("err:other:{}", e.chars().take(60).collect::<String>().replace(' ', "_")) }
}

async fn observe(case: &Case, o: usize, out: &str) -> String {
    let tr = rows(&case.logs[o], false).await.map(|r| show_recs(&r)).unwrap_or_else(|e| format!("stream-error:{e}"));
    let mut s = format!("out={} | T{} rows={} tree={} |", out, o, tr, show_leaves(&leaves(&case.logs[o])));
    let mut parts = vec![];
    for k in 0..case.logs.len() {
        if k == o { continue; }
        let r = rows(&case.logs[k], false).await.unwrap_or_default();
        let last = r.last().map(|x| x.commit().to_string()).unwrap_or("-".into());
        parts.push(format!("O{} {}:{}:{}", k, r.len(), last, leaves(&case.logs[k]).len()));
    }
    s.push(' ');
    s.push_str(&parts.join(" "));
    s
}

async fn setup(backend: &str, n_logs: usize, rng: &mut Rng) -> anyhow::Result<Case> {
    let base = std::path::Path::new("/verif/run/tmp");
    std::fs::create_dir_all(base)?;
    let tmp = tempfile::Builder::new().prefix("log").tempdir_in(base)?;
    let acct_a = AccountId::random();
    let acct_b = AccountId::random();
    let f1 = VaultId::new_v4();
    let f2 = VaultId::new_v4();
    let f3 = VaultId::new_v4();
    let fid = VaultId::new_v4();
    let mut descs: Vec<Desc> = vec![];
    let mut client = None;
    // pool of log kinds; the first two always share a table (two folders of one account)
    if backend == "fs" {
        let d = tmp.path();
        let all = vec![
            Desc::FsFolder(d.join("f1.events"), acct_a, EventLogType::Folder(f1)),
            Desc::FsFolder(d.join("f2.events"), acct_a, EventLogType::Folder(f2)),
            Desc::FsFolder(d.join("f3.events"), acct_b, EventLogType::Folder(f3)),
            Desc::FsAccount(d.join("a.events"), acct_a),
            Desc::FsAccount(d.join("b.events"), acct_b),
            Desc::FsDevice(d.join("dev.events"), acct_a),
            Desc::FsFile(d.join("files.events"), acct_a),
            Desc::FsFolder(d.join("identity.events"), acct_a, EventLogType::Identity),
        ];
        descs = pick_descs(all, n_logs, rng);
    } else {
        let mut c = sos_database::open_memory().await?;
        let mut ids = vec![];
        for (acct, folders) in [(acct_a, vec![(f1, false), (f2, false), (fid, true)]), (acct_b, vec![(f3, false)])] {
            let row = AccountRow::new_insert(&acct, "mock".to_owned())?;
            let mut frows = vec![];
            for (f, ident) in &folders {
                let mut v = Vault::default();
                *v.header_mut().id_mut() = *f;
                if *ident { *v.flags_mut() = VaultFlags::IDENTITY; }
                frows.push((FolderRow::new_insert(&v).await?, *ident));
            }
            let id = c.conn_mut(move |conn| {
                let account = AccountEntity::new(&conn);
                let folder = FolderEntity::new(&conn);
                let aid = account.insert(&row)?;
                for (fr, ident) in &frows {
                    let fid = folder.insert_folder(aid, fr)?;
                    if *ident { account.insert_login_folder(aid, fid)?; }
                }
                Ok(aid)
            }).await?;
            ids.push(id);
        }
        let all = vec![
            Desc::DbFolder(acct_a, f1), Desc::DbFolder(acct_a, f2), Desc::DbFolder(acct_b, f3),
            Desc::DbAccount(acct_a), Desc::DbAccount(acct_b), Desc::DbDevice(acct_a), Desc::DbFile(acct_a),
            Desc::DbFolder(acct_a, fid),
        ];
        descs = pick_descs(all, n_logs, rng);
        client = Some(c);
    }
    let mut logs = vec![];
    for d in &descs { logs.push(open(d, &client).await?); }
    let n = logs.len();
    Ok(Case { logs, descs, client, mirror: vec![vec![]; n], _tmp: tmp })
}

fn pick_descs(all: Vec<Desc>, n: usize, rng: &mut Rng) -> Vec<Desc> {
    // always the two co-resident folder logs, then a random selection of the rest
    let mut out = vec![all[0].clone(), all[1].clone()];
    let mut rest: Vec<Desc> = all[2..].to_vec();
    while out.len() < n && !rest.is_empty() {
        let i = rng.below(rest.len() as u64) as usize;
        out.push(rest.remove(i));
    }
    out
}

/// Typed events for `apply`, from a small pool so byte-identical events are common.
fn typed_event_bytes(any: &AnyLog, k: u64) -> u64 { let _ = any; k }

async fn do_apply(any: &mut AnyLog, rng: &mut Rng, n: usize) -> Result<(), String> {
    let pool_ids: Vec<SecretId> = (0..3u128).map(|i| SecretId::from_u128(0x1000 + i)).collect();
    let vpool: Vec<VaultId> = (0..3u128).map(|i| VaultId::from_u128(0x2000 + i)).collect();
    let names = ["a", "b"];
    match any {
        AnyLog::W(l) => {
            let evs: Vec<WriteEvent> = (0..n).map(|_| if rng.chance(1, 2) { WriteEvent::DeleteSecret(*rng.pick(&pool_ids)) } else { WriteEvent::SetVaultName(rng.pick(&names).to_string()) }).collect();
            l.apply(&evs).await.map_err(|e| e.to_string())
        }
        AnyLog::A(l) => {
            let evs: Vec<AccountEvent> = (0..n).map(|_| if rng.chance(1, 2) { AccountEvent::DeleteFolder(*rng.pick(&vpool)) } else { AccountEvent::RenameAccount(rng.pick(&names).to_string()) }).collect();
            l.apply(&evs).await.map_err(|e| e.to_string())
        }
        AnyLog::D(l) => {
            let evs: Vec<DeviceEvent> = (0..n).map(|_| DeviceEvent::Revoke(sos_core::device::DevicePublicKey::from([rng.below(3) as u8; 32]))).collect();
            l.apply(&evs).await.map_err(|e| e.to_string())
        }
        AnyLog::F(l) => {
            let evs: Vec<FileEvent> = (0..n).map(|_| FileEvent::DeleteFile(
                sos_core::SecretPath(*rng.pick(&vpool), *rng.pick(&pool_ids)),
                sos_core::ExternalFileName::from([rng.below(2) as u8; 32]))).collect();
            l.apply(&evs).await.map_err(|e| e.to_string())
        }
    }
}

fn gen_recs(rng: &mut Rng, clock: &mut i128, max: u64) -> Vec<RecD> {
    let n = rng.range(0, max);
    (0..n).map(|_| {
        // times: mostly increasing, sometimes ties, sometimes going backwards (clock skew)
        match rng.below(6) { 0 => {}, 1 => *clock -= 1_000_000_007, _ => *clock += rng.range(1, 3_000_000_000) as i128 }
        RecD { t: *clock, bytes: vec![rng.range(1, 4) as u8] }
    }).collect()
}

fn gen_cp(rng: &mut Rng, cur: &[RecD], others: &[Vec<RecD>]) -> (CpD, &'static str) {
    let seq: Vec<Vec<u8>> = cur.iter().map(|r| r.bytes.clone()).collect();
    match rng.below(10) {
        0..=3 => (CpD::Head(seq), "matching"),
        4 => { let mut s = seq; if !s.is_empty() { s.truncate(rng.below(s.len() as u64) as usize + 0); } if s.is_empty() { s.push(vec![1]); } (CpD::Head(s), "stale") }
        5 => { let mut s = seq; s.push(vec![rng.range(1, 4) as u8]); (CpD::Head(s), "ahead") }
        6 => { let mut s = seq; if s.is_empty() { s.push(vec![2]); } else { let i = rng.below(s.len() as u64) as usize; s[i] = vec![(s[i][0] % 4) + 1]; } (CpD::Head(s), "diverged") }
        7 => { let o = rng.pick(others); let mut s: Vec<Vec<u8>> = o.iter().map(|r| r.bytes.clone()).collect(); if s.is_empty() { s.push(vec![3]); } (CpD::Head(s), "other-log") }
        _ => {
            let len = match rng.below(3) { 0 => cur.len(), 1 => cur.len() + 1, _ => rng.below(6) as usize };
            let idx = match rng.below(3) { 0 => len.saturating_sub(1), 1 => 0, _ => rng.below(6) as usize };
            (CpD::Forged { root: vec![rng.below(255) as u8], hashes: (0..rng.below(4)).map(|_| vec![rng.range(1, 4) as u8]).collect(), len, idx }, "forged")
        }
    }
}

fn checked_out(r: Result<CheckedPatch, String>) -> String {
    match r {
        Ok(CheckedPatch::Success(p)) => format!("patched:{}", show_proof(&p)),
        Ok(CheckedPatch::Conflict { head, contains }) => format!("conflict:{}:{}", show_proof(&head), contains.map(|c| show_proof(&c)).unwrap_or("-".into())),
        Err(e) => err_kind(&e),
    }
}

async fn snapshot(case: &Case) -> Vec<(Vec<String>, Vec<[u8; 32]>)> {
    let mut out = vec![];
    for k in 0..case.logs.len() {
        let r = rows(&case.logs[k], false).await.unwrap_or_default();
        out.push((r.iter().map(show_rec).collect(), leaves(&case.logs[k])));
    }
    out
}

/// C07: a refused request must leave every log (records in order, tree) as it was.
async fn refused_unchanged(case: &Case, rep: &mut Report, backend: &str, script: &[String], what: &str, before: &[(Vec<String>, Vec<[u8; 32]>)]) {
    let after = snapshot(case).await;
    if after != before {
        rep.spec_fail(&format!("{backend}-refused-{what}-changed-log"), json!({"script": script}), "a refused request changed a log");
    }
}

/// Everything the property says about one log, checked on the implementation.
async fn oracle_after_op(case: &Case, rep: &mut Report, backend: &str, script: &[String], expect_rows: &[Vec<RecD>]) {
    for k in 0..case.logs.len() {
        let fwd = match rows(&case.logs[k], false).await { Ok(r) => r, Err(e) => { rep.spec_fail(&format!("{backend}-stream-error"), json!({"script": script}), &e); continue; } };
        let bwd = rows(&case.logs[k], true).await.unwrap_or_default();
        let mut rb = bwd.clone(); rb.reverse();
        if rb != fwd {
            rep.spec_fail(&format!("{backend}-reverse-stream-not-mirror"), json!({"script": script, "log": k}), "reverse iteration is not the mirror of forward iteration");
        }
        let lv = leaves(&case.logs[k]);
        let commits: Vec<[u8; 32]> = fwd.iter().map(|r| r.commit().0).collect();
        if lv != commits {
            rep.spec_fail(&format!("{backend}-tree-differs-from-storage"), json!({"script": script, "log": k, "tree_len": lv.len(), "rows": fwd.len()}), "in-memory tree leaves differ from the stored commits");
        }
        // reopen
        match open(&case.descs[k], &case.client).await {
            Ok(mut fresh) => {
                let r = with_log!(&mut fresh, l => l.load_tree().await.map_err(|e| e.to_string()));
                if let Err(e) = r { rep.spec_fail(&format!("{backend}-reopen-error"), json!({"script": script, "log": k}), &e); }
                else if leaves(&fresh) != lv {
                    rep.spec_fail(&format!("{backend}-reopen-tree-differs"), json!({"script": script, "log": k}), "tree after re-opening from storage differs from the tree in memory");
                }
            }
            Err(e) => rep.spec_fail(&format!("{backend}-reopen-error"), json!({"script": script, "log": k}), &e.to_string()),
        }
        for r in &fwd {
            if r.commit().0 != sha256(r.event_bytes()) {
                rep.spec_fail(&format!("{backend}-commit-not-hash-of-bytes"), json!({"script": script, "log": k}), "stored commit is not SHA-256 of the event bytes");
            }
        }
        // content vs the harness mirror (records and their times, in order)
        let got: Vec<(i128, Vec<u8>)> = fwd.iter().map(|r| (nanos(r.time()), r.event_bytes().to_vec())).collect();
        let want: Vec<(i128, Vec<u8>)> = expect_rows[k].iter().map(|r| (r.t, r.bytes.clone())).collect();
        if got != want {
            rep.spec_fail(&format!("{backend}-log-content-unexpected"), json!({"script": script, "log": k, "got": got.len(), "want": want.len()}), "records in storage are not the expected sequence (order / timestamps / isolation)");
        }
    }
}

pub async fn run_case(backend: &str, seed: u64, rep: &mut Report, ops_out: &mut Vec<String>, imp_out: &mut Vec<String>, max_ops: u64) -> anyhow::Result<()> {
    let mut rng = Rng::new(seed);
    let n_logs = rng.range(2, 4) as usize;
    let mut case = setup(backend, n_logs, &mut rng).await?;
    let mut clock: i128 = 1_700_000_000_000_000_000 + (rng.below(1000) as i128) * 1_000_000_000;
    let mut script: Vec<String> = vec![];
    let push = |ops_out: &mut Vec<String>, imp_out: &mut Vec<String>, script: &mut Vec<String>, op: String, imp: String| {
        script.push(op.clone()); ops_out.push(op); imp_out.push(imp);
    };
    push(ops_out, imp_out, &mut script, format!("log reset n={}", n_logs), "ok".into());
    let n_ops = rng.range(5, max_ops);
    let mut nontrivial = false;
    for _ in 0..n_ops {
        let o = rng.below(n_logs as u64) as usize;
        let cur = case.mirror[o].clone();
        let others: Vec<Vec<RecD>> = case.mirror.clone();
        let kind = rng.below(100);
        let snap = snapshot(&case).await;
        // a FAILING append (file-system logs): the file is out of reach for one call.  Storage and tree must stay as
        // they were, and nothing of the failed call may surface in a later append (the checks after every operation
        // compare the tree with what is stored and with a re-opened log)
        let fs_path: Option<std::path::PathBuf> = match &case.descs[o] { Desc::FsFolder(p, _, _) | Desc::FsAccount(p, _) | Desc::FsDevice(p, _) | Desc::FsFile(p, _) => Some(p.clone()), _ => None };
        if let (true, Some(path)) = (rng.chance(1, 20), fs_path) {
            let hidden = path.with_extension("hidden");
            if std::fs::rename(&path, &hidden).is_ok() {
                let r = do_apply(&mut case.logs[o], &mut rng, 2).await;
                let created = path.exists();
                if created { let _ = std::fs::remove_file(&path); }
                let _ = std::fs::rename(&hidden, &path);
                rep.count(if r.is_ok() { "op:failed-apply:did-not-fail" } else { "op:failed-apply:error" });
                if r.is_ok() || created {
                    // the call wrote somewhere else: forget the in-memory log and read the file again
                    if let Ok(mut fresh) = open(&case.descs[o], &case.client).await { let _ = with_log!(&mut fresh, l => l.load_tree().await.map_err(|e| e.to_string())); case.logs[o] = fresh; }
                } else {
                    script.push(format!("failed apply o={o}"));
                    refused_unchanged(&case, rep, backend, &script, "failed-apply", &snap).await;
                    script.pop();
                }
            }
        }
        if kind < 14 {
            // typed apply: time is stamped by the log; read it back
            let n = rng.range(1, 3) as usize;
            let pre = rows(&case.logs[o], false).await.unwrap_or_default().len();
            let r = do_apply(&mut case.logs[o], &mut rng, n).await;
            let all = rows(&case.logs[o], false).await.unwrap_or_default();
            let new = &all[pre.min(all.len())..];
            let t = new.first().map(|r| nanos(r.time())).unwrap_or(0);
            // the model takes one time for the batch: rewrite per-record times if they differ
            let same_t = new.iter().all(|r| nanos(r.time()) == t);
            for r in new { case.mirror[o].push(RecD { t: nanos(r.time()), bytes: r.event_bytes().to_vec() }); }
            let op = if same_t {
                format!("log apply o={} t={} evs={}", o, t, new.iter().map(|r| hex::encode(r.event_bytes())).collect::<Vec<_>>().join(","))
            } else {
                format!("log records o={} rs={}", o, show_recds(&case.mirror[o][cur.len()..]))
            };
            let out = match r { Ok(_) => "ok".to_string(), Err(e) => err_kind(&e) };
            let imp = observe(&case, o, &out).await;
            rep.count("op:apply");
            push(ops_out, imp_out, &mut script, op, imp);
        } else if kind < 34 {
            let rs = gen_recs(&mut rng, &mut clock, 4);
            let unchecked = rng.chance(1, 3);
            let real: Vec<EventRecord> = rs.iter().map(|r| r.real()).collect();
            let r = if unchecked {
                with_log!(&mut case.logs[o], l => l.patch_unchecked(&Patch::new(real)).await.map_err(|e| e.to_string()))
            } else {
                with_log!(&mut case.logs[o], l => l.apply_records(real).await.map_err(|e| e.to_string()))
            };
            if r.is_ok() { case.mirror[o].extend(rs.iter().cloned()); }
            let out = match r { Ok(_) => "ok".to_string(), Err(e) => err_kind(&e) };
            let imp = observe(&case, o, &out).await;
            rep.count(if unchecked { "op:patch_unchecked" } else { "op:apply_records" });
            push(ops_out, imp_out, &mut script, format!("log {} o={} rs={}", if unchecked { "punchecked" } else { "records" }, o, show_recds(&rs)), imp);
        } else if kind < 56 {
            let (cpd, ck) = gen_cp(&mut rng, &cur, &others);
            let rs = gen_recs(&mut rng, &mut clock, 3);
            let Some(cp) = cpd.real() else { continue };
            let real: Vec<EventRecord> = rs.iter().map(|r| r.real()).collect();
            let r = with_log!(&mut case.logs[o], l => l.patch_checked(&cp, &Patch::new(real)).await.map_err(|e| e.to_string()));
            let applied = matches!(r, Ok(CheckedPatch::Success(_)));
            // C07 oracle: applied iff the checkpoint is the head of exactly the current sequence
            let same_base = match &cpd { CpD::Head(s) => !cur.is_empty() && s.len() == cur.len() && s.iter().zip(cur.iter()).all(|(a, b)| a == &b.bytes), _ => false };
            if let CpD::Head(_) = &cpd {
                if applied != same_base && !cur.is_empty() {
                    rep.spec_fail(&format!("{backend}-patch-checked-{}", if applied { "applied-on-wrong-base" } else { "refused-on-agreed-base" }),
                        json!({"script": script, "op": format!("pchecked o={} cp={}", o, cpd.show())}), "checked patch applied iff heads equal violated");
                }
            }
            if applied { case.mirror[o].extend(rs.iter().cloned()); }
            else { script.push(format!("log pchecked o={} cp={} rs={}", o, cpd.show(), show_recds(&rs))); refused_unchanged(&case, rep, backend, &script, "patch-checked", &snap).await; script.pop(); }
            nontrivial = true;
            rep.count(&format!("op:patch_checked:{}:{}", ck, if applied { "applied" } else if r.is_ok() { "conflict" } else { "error" }));
            let imp = observe(&case, o, &checked_out(r)).await;
            push(ops_out, imp_out, &mut script, format!("log pchecked o={} cp={} rs={}", o, cpd.show(), show_recds(&rs)), imp);
        } else if kind < 72 {
            // rewind: present target at some depth (possibly a duplicated commit) or absent
            let target: Vec<u8> = if !cur.is_empty() && rng.chance(4, 5) { cur[rng.below(cur.len() as u64) as usize].bytes.clone() } else { vec![rng.range(5, 9) as u8] };
            let c = CommitHash(sha256(&target));
            let r = with_log!(&mut case.logs[o], l => l.rewind(&c).await.map_err(|e| e.to_string()));
            let pos = cur.iter().rposition(|x| x.bytes == target);
            let out = match &r {
                Ok(recs) => format!("records:{}", show_recs(recs)),
                Err(e) => err_kind(e),
            };
            let opline = format!("log rewind o={} c={}", o, hex::encode(&target));
            match (pos, &r) {
                (Some(p), Ok(recs)) => {
                    let expect_removed: Vec<(i128, Vec<u8>)> = cur[p + 1..].iter().map(|x| (x.t, x.bytes.clone())).collect();
                    let got: Vec<(i128, Vec<u8>)> = recs.iter().map(|x| (nanos(x.time()), x.event_bytes().to_vec())).collect();
                    if got != expect_removed {
                        let mut rv = got.clone(); rv.reverse();
                        let class = if rv == expect_removed && got.len() > 1 { format!("{backend}-rewind-returns-records-newest-first") } else { format!("{backend}-rewind-returns-wrong-records") };
                        rep.spec_fail(&class, json!({"script": script, "op": opline}), "records returned by rewind are not the removed suffix in log order");
                    }
                    nontrivial = true;
                    rep.count(&format!("op:rewind:depth{}", (cur.len() - p - 1).min(3)));
                }
                (None, Err(_)) => { rep.count("op:rewind:absent"); }
                (Some(_), Err(e)) => { rep.spec_fail(&format!("{backend}-rewind-fails-on-present-target"), json!({"script": script, "op": opline}), e); }
                (None, Ok(_)) => { rep.spec_fail(&format!("{backend}-rewind-succeeds-on-absent-target"), json!({"script": script, "op": opline}), "rewind to an absent commit succeeded"); }
            }
            match &r {
                // the mirror follows what the log reported it removed
                Ok(recs) => { let n = case.mirror[o].len().saturating_sub(recs.len()); case.mirror[o].truncate(n); }
                Err(_) => { script.push(opline.clone()); refused_unchanged(&case, rep, backend, &script, "rewind", &snap).await; script.pop(); }
            }
            let imp = observe(&case, o, &out).await;
            push(ops_out, imp_out, &mut script, format!("log rewind o={} c={}", o, hex::encode(&target)), imp);
        } else if kind < 76 {
            let r = with_log!(&mut case.logs[o], l => l.clear().await.map_err(|e| e.to_string()));
            if r.is_ok() { case.mirror[o].clear(); }
            let out = match r { Ok(_) => "ok".to_string(), Err(e) => err_kind(&e) };
            let imp = observe(&case, o, &out).await;
            rep.count("op:clear");
            push(ops_out, imp_out, &mut script, format!("log clear o={}", o), imp);
        } else if kind < 88 {
            // replace-all with matching / wrong / empty replacement
            let rs = match rng.below(5) { 0 => vec![], _ => { let mut v = gen_recs(&mut rng, &mut clock, 4); if v.is_empty() { v.push(RecD { t: clock, bytes: vec![2] }); } v } };
            let seq: Vec<Vec<u8>> = rs.iter().map(|r| r.bytes.clone()).collect();
            let (cpd, ck) = if rng.chance(1, 2) && !seq.is_empty() { (CpD::Head(seq.clone()), "matching") }
                else if rng.chance(1, 3) && !seq.is_empty() {
                    // the right root presented with the wrong proof shape (not the head proof)
                    let len = seq.len() + rng.below(2) as usize; let idx = rng.below(seq.len() as u64) as usize;
                    let hashes: Vec<Vec<u8>> = (0..rng.below(3)).map(|_| vec![rng.range(1, 4) as u8]).collect();
                    (CpD::RootOf { seq: seq.clone(), hashes, len, idx }, "right-root-wrong-shape")
                } else { let (c, _) = gen_cp(&mut rng, &cur, &others); (c, "wrong") };
            let Some(cp) = cpd.real() else { continue };
            let matching = match &cpd {
                CpD::Head(s) => *s == seq && !seq.is_empty(),
                other => { let expect = CpD::Head(seq.clone()).real(); let got = other.real(); !seq.is_empty() && expect.is_some() && expect == got }
            };
            let real: Vec<EventRecord> = rs.iter().map(|r| r.real()).collect();
            let diff_w = |real: Vec<EventRecord>| real;
            let real = diff_w(real);
            let r: Result<(), String> = match &mut case.logs[o] {
                AnyLog::W(l) => l.replace_all_events(&Diff::<WriteEvent> { last_commit: None, patch: Patch::new(real), checkpoint: cp }).await.map_err(|e| e.to_string()),
                AnyLog::A(l) => l.replace_all_events(&Diff::<AccountEvent> { last_commit: None, patch: Patch::new(real), checkpoint: cp }).await.map_err(|e| e.to_string()),
                AnyLog::D(l) => l.replace_all_events(&Diff::<DeviceEvent> { last_commit: None, patch: Patch::new(real), checkpoint: cp }).await.map_err(|e| e.to_string()),
                AnyLog::F(l) => l.replace_all_events(&Diff::<FileEvent> { last_commit: None, patch: Patch::new(real), checkpoint: cp }).await.map_err(|e| e.to_string()),
            };
            if r.is_ok() != matching {
                rep.spec_fail(&format!("{backend}-replace-all-{}", if r.is_ok() { "accepted-with-wrong-checkpoint" } else { "refused-with-matching-checkpoint" }), json!({"script": script}), "replace-all verification");
            }
            if r.is_ok() { case.mirror[o] = rs.clone(); }
            else { script.push(format!("log replace o={} rs={} cp={}", o, show_recds(&rs), cpd.show())); refused_unchanged(&case, rep, backend, &script, "replace-all", &snap).await; script.pop(); }
            nontrivial = true;
            rep.count(&format!("op:replace_all:{}:{}:{}", ck, if rs.is_empty() { "empty" } else { "nonempty" }, if r.is_ok() { "ok" } else { "refused" }));
            let out = match r { Ok(_) => "ok".to_string(), Err(e) => err_kind(&e) };
            let imp = observe(&case, o, &out).await;
            push(ops_out, imp_out, &mut script, format!("log replace o={} rs={} cp={}", o, show_recds(&rs), cpd.show()), imp);
        } else if kind < 94 {
            // diff_records from a present / absent / no commit
            let c: Option<Vec<u8>> = match rng.below(3) { 0 => None, 1 if !cur.is_empty() => Some(cur[rng.below(cur.len() as u64) as usize].bytes.clone()), _ => Some(vec![9]) };
            let ch = c.as_ref().map(|b| CommitHash(sha256(b)));
            let r = with_log!(&case.logs[o], l => l.diff_records(ch.as_ref()).await.map_err(|e| e.to_string()));
            let out = match r { Ok(recs) => format!("records:{}", show_recs(&recs)), Err(e) => err_kind(&e) };
            rep.count("op:diff_records");
            push(ops_out, imp_out, &mut script, format!("log diff o={} c={}", o, c.map(hex::encode).unwrap_or("-".into())), format!("out={}", out));
        } else {
            // rewind + checked patch + rollback on conflict, composed from the real pieces
            // exactly as server_helpers::event_patch / rollback_rewind do
            let target: Option<Vec<u8>> = if !cur.is_empty() && rng.chance(5, 6) { Some(cur[rng.below(cur.len() as u64) as usize].bytes.clone()) } else if rng.chance(1, 2) { None } else { Some(vec![8]) };
            let base_after: Vec<RecD> = match &target { Some(t) => match cur.iter().rposition(|x| &x.bytes == t) { Some(p) => cur[..=p].to_vec(), None => cur.clone() }, None => cur.clone() };
            let (cpd, ck) = if rng.chance(1, 2) { (CpD::Head(base_after.iter().map(|r| r.bytes.clone()).collect()), "matching-rewound") } else { gen_cp(&mut rng, &cur, &others) };
            let mut rs = gen_recs(&mut rng, &mut clock, 3);
            // half of the patches carry the records the rewind removes (what a client's merged patch does)
            // a third carry only the oldest of them (a patch computed before the newer ones were accepted)
            match rng.below(3) {
                0 => { let mut carried: Vec<RecD> = cur[base_after.len()..].to_vec(); carried.extend(rs); rs = carried; }
                1 => { let mut carried: Vec<RecD> = cur[base_after.len()..].iter().take(1).cloned().collect(); carried.extend(rs); rs = carried; }
                _ => {}
            }
            let Some(cp) = cpd.real() else { continue };
            let real: Vec<EventRecord> = rs.iter().map(|r| r.real()).collect();
            let mut removed: Vec<EventRecord> = vec![];
            let mut early: Option<String> = None;
            let mut stale = false;
            if let Some(t) = &target {
                let c = CommitHash(sha256(t));
                // the guard of server_helpers::event_patch: every record the rewind would remove is carried by the patch
                match with_log!(&case.logs[o], l => l.diff_records(Some(&c)).await.map_err(|e| e.to_string())) {
                    Err(e) => early = Some(err_kind(&e)),
                    Ok(would) => if would.iter().any(|r| !real.iter().any(|x| x.commit() == r.commit())) {
                        stale = true;
                        early = Some(match with_log!(&case.logs[o], l => l.tree().head().map_err(|e| e.to_string())) { Ok(h) => format!("conflict:{}:-", show_proof(&h)), Err(e) => err_kind(&e) });
                    },
                }
                if early.is_none() {
                    match with_log!(&mut case.logs[o], l => l.rewind(&c).await.map_err(|e| e.to_string())) {
                        Ok(r) => removed = r,
                        Err(e) => early = Some(err_kind(&e)),
                    }
                }
            }
            if stale { rep.count("op:event_patch:stale-rewind-refused"); }
            let out = if let Some(e) = early { refused_unchanged(&case, rep, backend, &script, "event-patch", &snap).await; e } else {
                let r = with_log!(&mut case.logs[o], l => l.patch_checked(&cp, &Patch::new(real)).await.map_err(|e| e.to_string()));
                if let Ok(CheckedPatch::Conflict { .. }) = &r {
                    let _ = with_log!(&mut case.logs[o], l => l.apply_records(removed.clone()).await);
                }
                if let Ok(CheckedPatch::Success(_)) = &r {
                    let n = case.mirror[o].len().saturating_sub(removed.len());
                    case.mirror[o].truncate(n);
                    case.mirror[o].extend(rs.iter().cloned());
                    let want: Vec<Vec<u8>> = base_after.iter().chain(rs.iter()).map(|x| x.bytes.clone()).collect();
                    let got: Vec<Vec<u8>> = case.mirror[o].iter().map(|x| x.bytes.clone()).collect();
                    if want != got {
                        rep.spec_fail(&format!("{backend}-event-patch-applied-on-wrong-base"), json!({"script": script}), "rewind-and-patch result is not base ++ patch");
                    }
                } else {
                    refused_unchanged(&case, rep, backend, &script, "event-patch", &snap).await;
                }
                rep.count(&format!("op:event_patch:{}:{}", ck, match &r { Ok(CheckedPatch::Success(_)) => "applied", Ok(_) => "conflict-rolled-back", Err(_) => "error" }));
                checked_out(r)
            };
            nontrivial = true;
            let imp = observe(&case, o, &out).await;
            push(ops_out, imp_out, &mut script, format!("log epatch o={} c={} cp={} rs={}", o, target.map(hex::encode).unwrap_or("-".into()), cpd.show(), show_recds(&rs)), imp);
        }
        let expect = case.mirror.clone();
        oracle_after_op(&case, rep, backend, &script, &expect).await;
    }
    // final full dump
    let mut parts = vec![];
    for k in 0..case.logs.len() {
        let r = rows(&case.logs[k], false).await.unwrap_or_default();
        parts.push(format!("T{} rows={} tree={}", k, show_recs(&r), show_leaves(&leaves(&case.logs[k]))));
    }
    push(ops_out, imp_out, &mut script, "log dump".into(), parts.join(" | "));
    rep.case(&format!("{}:{}", backend, script.join(";")), nontrivial);
    if seed % 97 == 0 {
        rep.sample(json!({"backend": backend, "script": script}));
    }
    let _ = typed_event_bytes;
    Ok(())
}

pub fn run(cli: &Cli) {
    let property = cli.extra.get("property").cloned().unwrap_or("C06".into());
    let mut rep = Report::new(&property, "log", cli.seed, &cli.tier);
    let rt = tokio::runtime::Builder::new_multi_thread().worker_threads(4).enable_all().build().unwrap();
    let thorough = cli.tier == "thorough";
    let n_cases: u64 = if thorough { 1500 } else { 100 };
    let mut ops = vec![];
    let mut imp = vec![];
    if let Some(path) = &cli.replay {
        let v: serde_json::Value = serde_json::from_str(&std::fs::read_to_string(path).unwrap()).unwrap();
        let seed = v["case"]["case_seed"].as_u64().unwrap_or(cli.seed);
        let backend = v["case"]["backend"].as_str().unwrap_or("fs").to_string();
        rt.block_on(async { run_case(&backend, seed, &mut rep, &mut ops, &mut imp, 25).await.unwrap(); });
        rep.diff_streams("corr:log", &ops, &imp);
        rep.write(&cli.out);
        return;
    }
    for backend in ["fs", "db"] {
        for k in 0..n_cases {
            let case_seed = cli.seed.wrapping_mul(1_000_003).wrapping_add(k);
            let before_fail = rep.spec_failure_count;
            let start = ops.len();
            let r = rt.block_on(async { run_case(backend, case_seed, &mut rep, &mut ops, &mut imp, 25).await });
            if let Err(e) = r {
                rep.notes.push(format!("case {backend}/{case_seed} aborted: {e}"));
                ops.truncate(start); imp.truncate(start);
            }
            if rep.spec_failure_count > before_fail {
                // tag the most recent failures with the case seed for replay
                for sf in rep.spec_failures.iter_mut().rev().take((rep.spec_failure_count - before_fail) as usize) {
                    if let Some(obj) = sf.case.as_object_mut() {
                        obj.entry("case_seed").or_insert(json!(case_seed));
                        obj.entry("backend").or_insert(json!(backend));
                    }
                }
            }
            if ops.len() > 20_000 {
                rep.diff_streams(&format!("corr:log/{backend}"), &ops, &imp);
                ops.clear(); imp.clear();
            }
        }
        rep.diff_streams(&format!("corr:log/{backend}"), &ops, &imp);
        ops.clear(); imp.clear();
    }
    rep.rule = format!("{n_cases} generated scripts per backend (fs, sqlite), 5-25 operations over 2-4 co-resident logs \
        (two folder logs of one account always share a table/directory; others drawn from folder of another account, account, device, file, identity logs); \
        payload alphabet of 4 one-byte events plus typed events so byte-identical events within and across logs are common; \
        checkpoints: matching, stale, ahead, diverged, other log's, forged; rewind targets present at any depth / duplicated / absent; \
        non-trivial = script reached a checked patch, rewind hit, replace-all or rewind-and-patch; distinct = distinct canonical script");
    rep.write(&cli.out);
}
