//! C15 for the file readers: a real file-system event log (and a vault file) is written by the real
//! code, then truncated at every offset, bit-flipped (all bits of the length fields), length-edited and
//! spliced; every mutant is opened and read by the real readers in both directions
//! (load_tree, forward and reverse record streams, diff_records, rewind, vault decode, find by id).
//! Outcome must be a value or an error: a panic (counted by a hook), a hang (timeout) or an
//! allocation out of proportion is a failure.
use futures::StreamExt;
use hcommon::{sha256, Cli, Report, Rng};
use serde_json::json;
use sos_core::{
    commit::CommitHash,
    events::{EventLog, EventLogType, WriteEvent},
    AccountId, SecretId, VaultCommit, VaultEntry, VaultFlags, VaultId,
};
use sos_core::crypto::{AeadPack, Nonce};
use sos_filesystem::FileSystemEventLog as Fs;
use std::sync::atomic::{AtomicU64, Ordering};

type BErr = sos_backend::Error;
static PANICS: AtomicU64 = AtomicU64::new(0);
static LAST_PANIC: std::sync::Mutex<String> = std::sync::Mutex::new(String::new());

fn aead(rng: &mut Rng, n: usize) -> AeadPack { let mut nonce = [0u8; 12]; for b in nonce.iter_mut() { *b = rng.below(256) as u8; } AeadPack { nonce: Nonce::Nonce12(nonce), ciphertext: (0..n).map(|_| rng.below(256) as u8).collect() } }

async fn read_all(path: &std::path::Path, account: AccountId, folder: VaultId, probe: &CommitHash) -> Vec<String> {
    let mut out = vec![];
    let mut log = match Fs::<WriteEvent, BErr>::new_folder(path, account, EventLogType::Folder(folder)).await { Ok(l) => l, Err(e) => return vec![format!("open:error:{}", short(&e.to_string()))] };
    out.push(match log.load_tree().await { Ok(_) => format!("load_tree:ok:{}", log.tree().len()), Err(e) => format!("load_tree:error:{}", short(&e.to_string())) });
    for rev in [false, true] {
        let st = log.record_stream(rev).await; futures::pin_mut!(st);
        let mut n = 0; let mut err = None;
        while let Some(r) = st.next().await { match r { Ok(_) => n += 1, Err(e) => { err = Some(e.to_string()); break; } } if n > 100_000 { err = Some("more than 100000 records".into()); break; } }
        out.push(format!("stream:{}:{}:{}", if rev { "reverse" } else { "forward" }, n, err.map(|e| short(&e)).unwrap_or("ok".into())));
    }
    out.push(match log.diff_records(None).await { Ok(v) => format!("diff_records:ok:{}", v.len()), Err(e) => format!("diff_records:error:{}", short(&e.to_string())) });
    out.push(match log.diff_records(Some(probe)).await { Ok(v) => format!("diff_since:ok:{}", v.len()), Err(e) => format!("diff_since:error:{}", short(&e.to_string())) });
    out.push(match log.rewind(probe).await { Ok(v) => format!("rewind:ok:{}", v.len()), Err(e) => format!("rewind:error:{}", short(&e.to_string())) });
    out
}
fn short(e: &str) -> String { e.chars().filter(|c| c.is_ascii_alphabetic() || *c == ' ').take(24).collect::<String>().replace(' ', "-") }

async fn read_vault(path: &std::path::Path, probe: &SecretId) -> Vec<String> {
    use sos_vault::{EncryptedEntry, Header, Vault};
    let mut out = vec![];
    let bytes = std::fs::read(path).unwrap_or_default();
    out.push(match sos_core::decode::<Vault>(&bytes).await { Ok(v) => format!("decode:ok:{}", v.len()), Err(e) => format!("decode:error:{}", short(&e.to_string())) });
    out.push(match Header::read_summary_file(path).await { Ok(_) => "summary:ok".into(), Err(e) => format!("summary:error:{}", short(&e.to_string())) });
    out.push(match Header::read_header_file(path).await { Ok(_) => "header:ok".into(), Err(e) => format!("header:error:{}", short(&e.to_string())) });
    let w = sos_filesystem::VaultFileWriter::<BErr>::new(path);
    out.push(match w.read_secret(probe).await { Ok(r) => format!("read_secret:ok:{}", r.is_some()), Err(e) => format!("read_secret:error:{}", short(&e.to_string())) });
    let mut w = sos_filesystem::VaultFileWriter::<BErr>::new(path);
    out.push(match w.delete_secret(probe).await { Ok(r) => format!("delete_secret:ok:{}", r.is_some()), Err(e) => format!("delete_secret:error:{}", short(&e.to_string())) });
    out
}

pub fn run(cli: &Cli) {
    let property = cli.extra.get("property").cloned().unwrap_or("C15".into());
    let mut rep = Report::new(&property, "fstream", cli.seed, &cli.tier);
    let thorough = cli.tier == "thorough";
    let rt = tokio::runtime::Builder::new_multi_thread().worker_threads(2).enable_all().build().unwrap();
    let dir = std::path::Path::new("/verif/run/tmp").join(format!("fstream-{}", std::process::id()));
    let _ = std::fs::remove_dir_all(&dir); std::fs::create_dir_all(&dir).unwrap();
    let mut rng = Rng::new(cli.seed ^ 0xF57);
    let account = AccountId::random();
    let folder = VaultId::new_v4();
    // a real log with five events and a real vault with three rows
    let log_path = dir.join("base.events");
    let vault_path = dir.join("base.vault");
    let ids: Vec<SecretId> = (0..3).map(|_| SecretId::new_v4()).collect();
    let commits: Vec<CommitHash> = rt.block_on(async {
        let mut log = Fs::<WriteEvent, BErr>::new_folder(&log_path, account, EventLogType::Folder(folder)).await.unwrap();
        let mut vault = sos_vault::Vault::new(folder, "fstream".into(), Default::default(), Default::default(), VaultFlags::default());
        let mut evs = vec![WriteEvent::CreateVault(sos_core::encode(&vault).await.unwrap())];
        for id in &ids { let row = VaultCommit(CommitHash(sha256(id.as_bytes())), VaultEntry(aead(&mut rng, 40), aead(&mut rng, 90))); vault.insert_entry(*id, row.clone()); evs.push(WriteEvent::CreateSecret(*id, row)); }
        evs.push(WriteEvent::SetVaultName("renamed".into()));
        log.apply(&evs).await.unwrap();
        std::fs::write(&vault_path, sos_core::encode(&vault).await.unwrap()).unwrap();
        log.tree().leaves().unwrap_or_default().into_iter().map(CommitHash).collect()
    });
    let base_log = std::fs::read(&log_path).unwrap();
    let base_vault = std::fs::read(&vault_path).unwrap();
    std::panic::set_hook(Box::new(|info| { PANICS.fetch_add(1, Ordering::SeqCst); let loc = info.location().map(|l| format!("{}:{}", l.file().rsplit("/crates/").next().unwrap_or(l.file()), l.line())).unwrap_or_default(); *LAST_PANIC.lock().unwrap() = loc; }));
    let mutants = |base: &Vec<u8>, rng: &mut Rng, thorough: bool| -> Vec<(String, Vec<u8>)> {
        let mut m: Vec<(String, Vec<u8>)> = vec![("valid".into(), base.clone()), ("empty".into(), vec![])];
        for i in 0..base.len() { m.push(("truncated".into(), base[..i].to_vec())); }
        // every bit of the first 16 bytes and of every 4-byte field that looks like a row length
        for i in 0..base.len().min(16) { for b in 0..8 { let mut x = base.clone(); x[i] ^= 1 << b; m.push(("bitflip-head".into(), x)); } }
        for _ in 0..(if thorough { 4000 } else { 400 }) { let mut x = base.clone(); let p = rng.below(x.len() as u64) as usize; x[p] ^= 1 << rng.below(8); m.push(("bitflip".into(), x)); }
        for _ in 0..(if thorough { 1500 } else { 200 }) { let mut x = base.clone(); let p = rng.below((x.len() - 3) as u64) as usize; let v: u32 = *rng.pick(&[0xffff_ffffu32, 0x7fff_ffff, 0x0100_0000, 0x8000_0000, 0, 1, 2, 0xffff, 0x10000]); x[p..p + 4].copy_from_slice(&v.to_le_bytes()); m.push(("length-edit".into(), x)); }
        // the trailing 4 bytes (row length read by reverse iteration)
        for v in [0u32, 1, 0xffff_ffff, 0x7fff_ffff, base.len() as u32, base.len() as u32 - 8, 0x10000] { let mut x = base.clone(); let n = x.len(); x[n - 4..].copy_from_slice(&v.to_le_bytes()); m.push(("tail-length".into(), x)); }
        for _ in 0..(if thorough { 300 } else { 60 }) { let a = rng.below(base.len() as u64) as usize; let b = rng.below(base.len() as u64) as usize; let mut x = base[..a].to_vec(); x.extend_from_slice(&base[b..]); m.push(("splice".into(), x)); }
        for _ in 0..(if thorough { 200 } else { 40 }) { let mut x = base.clone(); let extra: Vec<u8> = (0..rng.range(1, 40)).map(|_| rng.below(256) as u8).collect(); x.extend_from_slice(&extra); m.push(("garbage-appended".into(), x)); }
        m
    };
    let trial = dir.join("trial.events");
    for (kind, bytes) in mutants(&base_log, &mut rng, thorough) {
        std::fs::write(&trial, &bytes).unwrap();
        let before = PANICS.load(Ordering::SeqCst);
        let probe = commits[2];
        let t = trial.clone();
        let res = rt.block_on(async move { tokio::time::timeout(std::time::Duration::from_secs(20), tokio::spawn(async move { read_all(&t, account, folder, &probe).await })).await });
        let panicked = PANICS.load(Ordering::SeqCst) > before;
        rep.case(&format!("log:{kind}:{}", hex::encode(&sha256(&bytes)[..6])), kind != "valid");
        match res {
            Err(_) => rep.spec_fail("decode-hangs:event-log-file", json!({"kind": kind, "len": bytes.len()}), "reading a corrupted event log file did not finish within 20 s"),
            Ok(Err(e)) => { let at = LAST_PANIC.lock().unwrap().clone(); rep.spec_fail(&format!("decode-panics:event-log-file:{}", if e.is_panic() { at.replace('/', ".") } else { "cancelled".into() }), json!({"kind": kind, "len": bytes.len(), "hex_tail": hex::encode(&bytes[bytes.len().saturating_sub(24)..])}), "reading a corrupted event log file panicked"); }
            Ok(Ok(outs)) => {
                for o in &outs { rep.count(&format!("log:{}", o.split(':').take(if o.starts_with("stream") { 2 } else { 1 }).collect::<Vec<_>>().join(":") + ":" + if o.contains(":ok") { "ok" } else { "error" })); }
                if panicked { rep.spec_fail("decode-panics:event-log-file:spawned-task", json!({"kind": kind, "len": bytes.len(), "outs": outs, "hex_tail": hex::encode(&bytes[bytes.len().saturating_sub(24)..])}), "reading a corrupted event log file panicked inside a task spawned by the reader (record_stream)"); }
                if kind == "valid" && !outs.iter().any(|o| o == "load_tree:ok:5") { rep.spec_fail("fstream-harness-self-check", json!({"outs": outs}), "the unmodified log was not read as 5 records"); }
            }
        }
    }
    let trial = dir.join("trial.vault");
    for (kind, bytes) in mutants(&base_vault, &mut rng, thorough) {
        std::fs::write(&trial, &bytes).unwrap();
        let before = PANICS.load(Ordering::SeqCst);
        let probe = ids[1];
        let t = trial.clone();
        let res = rt.block_on(async move { tokio::time::timeout(std::time::Duration::from_secs(20), tokio::spawn(async move { read_vault(&t, &probe).await })).await });
        let panicked = PANICS.load(Ordering::SeqCst) > before;
        rep.case(&format!("vault:{kind}:{}", hex::encode(&sha256(&bytes)[..6])), kind != "valid");
        match res {
            Err(_) => rep.spec_fail("decode-hangs:vault-file", json!({"kind": kind, "len": bytes.len()}), "reading a corrupted vault file did not finish within 20 s"),
            Ok(Err(_)) => { let at = LAST_PANIC.lock().unwrap().clone(); rep.spec_fail(&format!("decode-panics:vault-file:{}", at.replace('/', ".")), json!({"kind": kind, "len": bytes.len()}), "reading a corrupted vault file panicked") }
            Ok(Ok(outs)) => {
                for o in &outs { rep.count(&format!("vault:{}:{}", o.split(':').next().unwrap(), if o.contains(":ok") { "ok" } else { "error" })); }
                if panicked { rep.spec_fail("decode-panics:vault-file", json!({"kind": kind, "len": bytes.len(), "outs": outs}), "reading a corrupted vault file panicked"); }
                if kind == "valid" && !outs.iter().any(|o| o == "decode:ok:3") { rep.spec_fail("fstream-harness-self-check", json!({"outs": outs}), "the unmodified vault was not read as 3 rows"); }
            }
        }
    }
    let _ = std::panic::take_hook();
    let _ = std::fs::remove_dir_all(&dir);
    rep.rule = "a real event log file (5 records) and a real vault file (3 rows): truncated at EVERY offset, every bit of the first 16 bytes flipped, random bit flips, hostile values written over every kind of 4-byte field, the trailing row length replaced, splices, garbage appended; each mutant is read by load_tree, the forward and the reverse record stream, diff_records (all / since a commit), rewind, and for the vault by the decoder, the header readers and the file writer's find-by-id (read, delete); a panic hook counts panics, 20 s timeout per mutant".into();
    rep.write(&cli.out);
}
